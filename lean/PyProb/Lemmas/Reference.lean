/-
  Lemmas relating the model's Bloom operations under the default hashing strategy to the
  documented hashing rule and the reference reader / writer of `Spec/Layout.lean`.
-/
import PyProb.Lemmas.LayoutSpec
import PyProb.Properties.C18

namespace PyProb

/-- `check_alt` on a long enough hash list never fails and tests the first `n` positions -/
theorem checkGo_all (m : Nat) (bits : Bytes) (n : Nat) (hs : List Nat) (h : n ≤ hs.length) :
    Bloom.checkGo m bits n hs = .ok ((hs.take n).all fun x => testBitB bits (x % m)) := by
  induction n generalizing hs with
  | zero => simp [Bloom.checkGo]
  | succ n ih =>
      cases hs with
      | nil => simp at h
      | cons x xs =>
          simp only [Bloom.checkGo, List.take_succ_cons, List.all_cons]
          cases hx : testBitB bits (x % m)
          · simp
          · simp [ih xs (by simpa using h)]

/-- the documented hashing rule is the model's default strategy -/
theorem defaultFnv_spec (key : Key) (k : Nat) :
    defaultFnv key k = (List.range k).map (Spec.hashI key.units) := by
  rw [C18.C18_default_is_published_fnv]
  rfl

theorem positions_spec (b : Bloom) (key : Key) :
    b.positions (defaultFnv key b.k) = Spec.bloomPositions b.k b.m key.units := by
  unfold Bloom.positions Spec.bloomPositions
  rw [defaultFnv_spec, List.take_of_length_le (by simp)]
  simp [List.map_map, Function.comp_def]

theorem bitOfFile_append (bits suf : Bytes) (i : Nat) (h : i / 8 < bits.length) :
    Spec.bitOfFile (bits ++ suf) i = testBitB bits i := by
  rw [testBitB_eq]
  unfold Spec.bitOfFile Spec.at'
  simp [List.getD_eq_getElem?_getD, List.getElem?_append_left h]

theorem foldl_setBit_spec (ps : List Nat) (bs : Bytes) : ps.foldl Spec.setBit bs = ps.foldl setBitB bs := by
  induction ps generalizing bs with
  | nil => rfl
  | cons p ps ih => simp only [List.foldl_cons, spec_setBit, ih]

theorem bloomRun_eq (k m : Nat) (keys : List Key) (b0 : Bloom) (hk : b0.k = k) (hm : b0.m = m) :
    keys.foldl (fun b key => (b.addAlt (defaultFnv key k)).1) b0 =
      { b0 with
        bits := (keys.map Key.units).foldl (fun arr key => (Spec.bloomPositions k m key).foldl Spec.setBit arr) b0.bits
        count := b0.count + keys.length } := by
  induction keys generalizing b0 with
  | nil => simp
  | cons key keys ih =>
      simp only [List.foldl_cons, List.map_cons, List.length_cons]
      have hlen : ¬ (defaultFnv key k).length < b0.k := by rw [C18.C18_len_default, hk]; omega
      have hstep : (b0.addAlt (defaultFnv key k)).1 =
          { b0 with bits := (Spec.bloomPositions k m key.units).foldl Spec.setBit b0.bits, count := b0.count + 1 } := by
        unfold Bloom.addAlt
        simp only [hlen, if_false]
        rw [foldl_setBit_spec, ← hk, ← hm, ← positions_spec, hk]
      rw [hstep, ih _ (by exact hk) (by exact hm)]
      simp only [Bloom.mk.injEq, true_and]
      push_cast; omega

/-! ### reading cells back from a file -/

theorem at'_u32le_succ (c : Nat) (rest : Bytes) (i : Nat) :
    Spec.at' (Spec.u32le c ++ rest) (i + 4) = Spec.at' rest i := by
  simp [Spec.at', Spec.u32le, List.getD_eq_getElem?_getD]

theorem rdU32_u32le_succ (c : Nat) (rest : Bytes) (off : Nat) :
    Spec.rdU32 (Spec.u32le c ++ rest) (off + 4) = Spec.rdU32 rest off := by
  unfold Spec.rdU32
  rw [show off + 4 + 1 = off + 1 + 4 by omega, show off + 4 + 2 = off + 2 + 4 by omega,
    show off + 4 + 3 = off + 3 + 4 by omega]
  simp only [at'_u32le_succ]

theorem rdU32_u32le_zero (c : Nat) (rest : Bytes) (h : c < 2 ^ 32) :
    Spec.rdU32 (Spec.u32le c ++ rest) 0 = c := by
  simp [Spec.rdU32, Spec.at', Spec.u32le]
  omega

/-- the uint32 at byte offset `4p` of a counter file is counter `p` -/
theorem rdU32_cells (cells : List Nat) (suf : Bytes) (p : Nat) (hp : p < cells.length)
    (h : ∀ x ∈ cells, x < 2 ^ 32) :
    Spec.rdU32 (cells.flatMap Spec.u32le ++ suf) (4 * p) = cells.getD p 0 := by
  induction cells generalizing p with
  | nil => simp at hp
  | cons c cs ih =>
      simp only [List.flatMap_cons, List.append_assoc]
      cases p with
      | zero => simpa using rdU32_u32le_zero c _ (h c (by simp))
      | succ p =>
          rw [show 4 * (p + 1) = 4 * p + 4 by omega, rdU32_u32le_succ]
          rw [ih p (by simpa using hp) (fun x hx => h x (List.mem_cons_of_mem _ hx))]
          simp

/-- two's complement code of an int32 -/
def enc32 (v : Int) : Nat := if v < 0 then (v + 4294967296).toNat else v.toNat

theorem rdI32_cells (cells : List Int) (suf : Bytes) (p : Nat) (hp : p < cells.length)
    (h : ∀ x ∈ cells, -2147483648 ≤ x ∧ x ≤ 2147483647) :
    Spec.rdI32 (cells.flatMap Spec.i32le ++ suf) (4 * p) = cells.getD p 0 := by
  have e : cells.flatMap Spec.i32le = (cells.map enc32).flatMap Spec.u32le := by
    rw [List.flatMap_map]; rfl
  unfold Spec.rdI32
  rw [e, rdU32_cells _ _ p (by simpa using hp)]
  · have hc := h cells[p] (List.getElem_mem hp)
    simp only [List.getD_eq_getElem?_getD, List.getElem?_map, List.getElem?_eq_getElem hp, Option.map_some,
      Option.getD_some]
    unfold enc32
    split <;> split <;> omega
  · intro x hx
    simp only [List.mem_map] at hx
    obtain ⟨v, hv, rfl⟩ := hx
    have := h v hv
    unfold enc32
    split <;> omega

/-! ### minimum of a list -/

theorem natCast_foldl_min (xs : List Nat) (x : Nat) :
    ((xs.foldl min x : Nat) : Int) = (xs.map Int.ofNat).foldl min (x : Int) := by
  induction xs generalizing x with
  | nil => rfl
  | cons y ys ih =>
      simp only [List.foldl_cons, List.map_cons]
      rw [ih]
      congr 1
      simp only [Int.ofNat_eq_natCast]
      omega

theorem foldl_min_le (xs : List Int) (x : Int) : xs.foldl min x ≤ x ∧ ∀ y ∈ xs, xs.foldl min x ≤ y := by
  induction xs generalizing x with
  | nil => simp
  | cons y ys ih =>
      simp only [List.foldl_cons, List.mem_cons]
      have := ih (min x y)
      refine ⟨by omega, ?_⟩
      intro z hz
      rcases hz with rfl | hz
      · omega
      · exact this.2 z hz

theorem foldl_min_mem (xs : List Int) (x : Int) : xs.foldl min x = x ∨ xs.foldl min x ∈ xs := by
  induction xs generalizing x with
  | nil => simp
  | cons y ys ih =>
      simp only [List.foldl_cons, List.mem_cons]
      rcases ih (min x y) with h | h
      · rw [h]
        by_cases hxy : x ≤ y
        · left; omega
        · right; left; omega
      · right; right; exact h

/-- the head of the sorted list is the minimum -/
theorem sortInts_head (x : Int) (xs : List Int) :
    ∃ rest, CMS.sortInts (x :: xs) = xs.foldl min x :: rest := by
  have hperm := List.mergeSort_perm (x :: xs) (fun a b => decide (a ≤ b))
  have hsorted := List.pairwise_mergeSort (le := fun a b => decide (a ≤ b))
    (by intro a b c; simp; omega) (by intro a b; simp; omega) (x :: xs)
  unfold CMS.sortInts
  generalize (x :: xs).mergeSort (fun a b => decide (a ≤ b)) = s at hperm hsorted
  cases s with
  | nil => exact absurd hperm.length_eq (by simp)
  | cons y ys =>
      refine ⟨ys, ?_⟩
      congr 1
      have hy : y ∈ x :: xs := hperm.mem_iff.mp (by simp)
      have hmin := foldl_min_le xs x
      have hmem := foldl_min_mem xs x
      have hm : xs.foldl min x ∈ y :: ys := hperm.mem_iff.mpr (by
        rcases hmem with h | h
        · rw [h]; simp
        · exact List.mem_cons_of_mem _ h)
      have h1 : xs.foldl min x ≤ y := by
        rcases List.mem_cons.mp hy with rfl | hy
        · exact hmin.1
        · exact hmin.2 y hy
      have h2 : y ≤ xs.foldl min x := by
        rcases List.mem_cons.mp hm with h | h
        · omega
        · have := (List.pairwise_cons.mp hsorted).1 _ h
          simpa using this
      omega

theorem binIdx_default (c : CMS) (key : Key) :
    c.binIdx (defaultFnv key c.d) = (List.range c.d).map fun i => Spec.hashI key.units i % c.w + i * c.w := by
  unfold CMS.binIdx
  rw [defaultFnv_spec, List.length_map, List.length_range, List.zipWith_map_right, List.zipWith_self]

theorem cms_idx_lt {w d i r : Nat} (hi : i < d) (hr : r < w) : r + i * w < w * d := by
  have : (i + 1) * w ≤ d * w := Nat.mul_le_mul_right w hi
  rw [Nat.succ_mul] at this
  rw [Nat.mul_comm w d]; omega


theorem zip_map_self_rf {α β} (l : List α) (f : α → β) : l.zip (l.map f) = l.map fun k => (k, f k) := by
  induction l with
  | nil => rfl
  | cons a l ih => simp [ih]

/-! ### counting Bloom: the store loop is a sequence of saturating increments -/

/-- `cells[p] = min(cells[p] + 1, UINT32_MAX)` on the model's cell list -/
def incrI (cells : List Int) (p : Nat) : List Int := cells.set p (min (cells.getD p 0 + 1) 4294967295)

theorem incrI_length (cells : List Int) (p : Nat) : (incrI cells p).length = cells.length := by simp [incrI]

theorem incrI_range (cells : List Int) (p : Nat) (h : ∀ x ∈ cells, 0 ≤ x ∧ x ≤ 4294967295) :
    ∀ x ∈ incrI cells p, 0 ≤ x ∧ x ≤ 4294967295 := by
  intro x hx
  rcases List.mem_or_eq_of_mem_set hx with hx | rfl
  · exact h x hx
  · have : 0 ≤ cells.getD p 0 := by
      rw [List.getD_eq_getElem?_getD]
      cases hq : cells[p]? with
      | none => simp
      | some v => simpa using (h v (List.mem_of_getElem? hq)).1
    omega

theorem incrI_getD_max (cells : List Int) (p q : Nat) (h : cells.getD q 0 = 4294967295) :
    (incrI cells p).getD q 0 = 4294967295 := by
  unfold incrI
  rw [List.getD_eq_getElem?_getD] at h
  by_cases hpq : p = q
  · subst hpq
    by_cases hp : p < cells.length
    · simp only [List.getD_eq_getElem?_getD, List.getElem?_set_self hp, Option.getD_some]
      omega
    · rw [List.set_eq_of_length_le (by omega), List.getD_eq_getElem?_getD]; exact h
  · simpa [List.getD_eq_getElem?_getD, List.getElem?_set_ne hpq] using h

theorem foldl_incrI_inv (ps : List Nat) (cells : List Int) (h : ∀ x ∈ cells, 0 ≤ x ∧ x ≤ 4294967295) :
    (ps.foldl incrI cells).length = cells.length ∧ ∀ x ∈ ps.foldl incrI cells, 0 ≤ x ∧ x ≤ 4294967295 := by
  induction ps generalizing cells with
  | nil => exact ⟨rfl, h⟩
  | cons p ps ih =>
      simp only [List.foldl_cons]
      have := ih (incrI cells p) (incrI_range _ _ h)
      rw [incrI_length] at this
      exact this

theorem cbf_addLoop_one (cur : List Int) (pairs : List (Nat × Int)) (acc : List Int)
    (hcur : ∀ x ∈ cur, 0 ≤ x ∧ x ≤ 4294967295)
    (hp : ∀ kv ∈ pairs, kv.2 > 4294967295 → cur.getD kv.1 0 = 4294967295) :
    ∃ vals, CBF.addLoop 1 cur pairs acc = ((pairs.map (·.1)).foldl incrI cur, vals, none) := by
  induction pairs generalizing cur acc with
  | nil => exact ⟨_, rfl⟩
  | cons kv rest ih =>
      obtain ⟨k, v⟩ := kv
      have hk := hp (k, v) (by simp)
      have hrest : ∀ kv ∈ rest, kv.2 > 4294967295 → (incrI cur k).getD kv.1 0 = 4294967295 :=
        fun kv hkv hv => incrI_getD_max _ _ _ (hp kv (List.mem_cons_of_mem _ hkv) hv)
      have hnn : 0 ≤ cur.getD k 0 := by
        rw [List.getD_eq_getElem?_getD]
        cases hq : cur[k]? with
        | none => simp
        | some x => simpa using (hcur x (List.mem_of_getElem? hq)).1
      have hmax : Gen.uint32Max = 4294967295 := rfl
      simp only [CBF.addLoop, Gen.cbfAddClampCmp, Cmp.evalInt, List.map_cons, List.foldl_cons,
        decide_eq_true_eq]
      by_cases hv : v > Gen.uint32Max
      · rw [if_pos hv]
        have : cur.set k Gen.uint32Max = incrI cur k := by
          unfold incrI; rw [hk (by omega)]; rfl
        rw [this]
        exact ih _ _ (incrI_range _ _ hcur) hrest
      · rw [if_neg hv]
        have e : (if cur.getD k 0 + 1 > Gen.uint32Max then Gen.uint32Max else cur.getD k 0 + 1)
            = min (cur.getD k 0 + 1) 4294967295 := by split <;> omega
        simp only [e]
        rw [if_neg (by omega)]
        exact ih _ _ (incrI_range _ _ hcur) hrest

/-- one `add` of a key under the default strategy -/
theorem cbf_add_default (c : CBF) (key : Key) (hlen : c.cells.length = c.m)
    (hcells : ∀ x ∈ c.cells, 0 ≤ x ∧ x ≤ 4294967295) :
    (c.addAlt (defaultFnv key c.k) 1).1 =
      { c with cells := (Spec.bloomPositions c.k c.m key.units).foldl incrI c.cells,
               count := min (c.count + 1) 18446744073709551615 } := by
  have hidx : c.indices (defaultFnv key c.k) = .ok (Spec.bloomPositions c.k c.m key.units) := by
    unfold CBF.indices
    rw [if_neg (by rw [C18.C18_len_default]; omega), List.take_of_length_le (by rw [C18.C18_len_default]; omega),
      defaultFnv_spec, hlen]
    simp [Spec.bloomPositions, List.map_map, Function.comp_def]
  unfold CBF.addAlt
  rw [hidx]
  simp only [zip_map_self_rf]
  obtain ⟨vals, hv⟩ := cbf_addLoop_one c.cells
    ((Spec.bloomPositions c.k c.m key.units).map fun k => (k, c.cells.getD k 0 + 1)) [] hcells (by
      intro kv hkv hgt
      simp only [List.mem_map] at hkv
      obtain ⟨p, _, rfl⟩ := hkv
      simp only at hgt ⊢
      have : c.cells.getD p 0 ≤ 4294967295 := by
        rw [List.getD_eq_getElem?_getD]
        cases hq : c.cells[p]? with
        | none => simp
        | some x => simpa using (hcells x (List.mem_of_getElem? hq)).2
      omega)
  rw [hv]
  simp [List.map_map, Function.comp_def, Gen.uint64Max]

theorem cbfRun_eq (k m : Nat) (keys : List Key) (c0 : CBF) (hk : c0.k = k) (hm : c0.m = m)
    (hlen : c0.cells.length = m) (hcells : ∀ x ∈ c0.cells, 0 ≤ x ∧ x ≤ 4294967295)
    (hc : c0.count + keys.length ≤ 18446744073709551615) :
    keys.foldl (fun c key => (c.addAlt (defaultFnv key k) 1).1) c0 =
      { c0 with
        cells := (keys.map Key.units).foldl (fun arr key => (Spec.bloomPositions k m key).foldl incrI arr) c0.cells
        count := c0.count + keys.length } := by
  induction keys generalizing c0 with
  | nil => simp
  | cons key keys ih =>
      simp only [List.foldl_cons, List.map_cons, List.length_cons]
      have hstep := cbf_add_default c0 key (by rw [hlen, hm]) hcells
      rw [hk, hm] at hstep
      rw [hstep]
      have hinv := foldl_incrI_inv (Spec.bloomPositions k m key.units) c0.cells hcells
      simp only [List.length_cons] at hc
      rw [ih _ rfl rfl (by simp only; rw [hinv.1, hlen]) (by exact hinv.2)
        (by simp only; omega)]
      simp only [CBF.mk.injEq, true_and]
      omega

theorem incrI_toNat (cells : List Int) (p : Nat) (h : ∀ x ∈ cells, 0 ≤ x) :
    (incrI cells p).map Int.toNat = Spec.incrSat (cells.map Int.toNat) p := by
  induction cells generalizing p with
  | nil => simp [incrI, Spec.incrSat]
  | cons c cs ih =>
      have hc := h c (by simp)
      cases p with
      | zero =>
          simp only [incrI, List.set_cons_zero, List.getD_cons_zero, List.map_cons, Spec.incrSat]
          congr 1
          split <;> omega
      | succ p =>
          have := ih p (fun x hx => h x (List.mem_cons_of_mem _ hx))
          simp only [incrI, List.set_cons_succ, List.getD_cons_succ, List.map_cons, Spec.incrSat] at this ⊢
          rw [this]

theorem foldl_incrI_toNat (ps : List Nat) (cells : List Int) (h : ∀ x ∈ cells, 0 ≤ x ∧ x ≤ 4294967295) :
    (ps.foldl incrI cells).map Int.toNat = ps.foldl Spec.incrSat (cells.map Int.toNat) := by
  induction ps generalizing cells with
  | nil => rfl
  | cons p ps ih =>
      simp only [List.foldl_cons]
      rw [ih _ (incrI_range _ _ h), incrI_toNat _ _ (fun x hx => (h x hx).1)]

theorem foldl_keys_incrI (k m : Nat) (keys : List (List Nat)) (cells : List Int)
    (h : ∀ x ∈ cells, 0 ≤ x ∧ x ≤ 4294967295) :
    let r := keys.foldl (fun arr key => (Spec.bloomPositions k m key).foldl incrI arr) cells
    (∀ x ∈ r, 0 ≤ x ∧ x ≤ 4294967295) ∧
    r.map Int.toNat = keys.foldl (fun arr key => (Spec.bloomPositions k m key).foldl Spec.incrSat arr) (cells.map Int.toNat) := by
  induction keys generalizing cells with
  | nil => exact ⟨h, rfl⟩
  | cons key keys ih =>
      simp only [List.foldl_cons]
      have hinv := foldl_incrI_inv (Spec.bloomPositions k m key) cells h
      have := ih _ hinv.2
      rw [foldl_incrI_toNat _ _ h] at this
      exact this

/-! ### count-min: the store loop is a sequence of saturating increments -/

/-- `bins[p] = min(bins[p] + 1, INT32_MAX)` on the model's cell list -/
def incrC (cells : List Int) (p : Nat) : List Int := cells.set p (min (cells.getD p 0 + 1) 2147483647)

theorem incrC_length (cells : List Int) (p : Nat) : (incrC cells p).length = cells.length := by simp [incrC]

theorem getD_range (cells : List Int) (p : Nat) (h : ∀ x ∈ cells, -2147483648 ≤ x ∧ x ≤ 2147483647) :
    -2147483648 ≤ cells.getD p 0 ∧ cells.getD p 0 ≤ 2147483647 := by
  rw [List.getD_eq_getElem?_getD]
  cases hq : cells[p]? with
  | none => simp
  | some v => simpa using h v (List.mem_of_getElem? hq)

theorem incrC_range (cells : List Int) (p : Nat) (h : ∀ x ∈ cells, -2147483648 ≤ x ∧ x ≤ 2147483647) :
    ∀ x ∈ incrC cells p, -2147483648 ≤ x ∧ x ≤ 2147483647 := by
  intro x hx
  rcases List.mem_or_eq_of_mem_set hx with hx | rfl
  · exact h x hx
  · have := getD_range cells p h
    omega

theorem foldl_incrC_inv (ps : List Nat) (cells : List Int) (h : ∀ x ∈ cells, -2147483648 ≤ x ∧ x ≤ 2147483647) :
    (ps.foldl incrC cells).length = cells.length ∧
      ∀ x ∈ ps.foldl incrC cells, -2147483648 ≤ x ∧ x ≤ 2147483647 := by
  induction ps generalizing cells with
  | nil => exact ⟨rfl, h⟩
  | cons p ps ih =>
      simp only [List.foldl_cons]
      have := ih (incrC cells p) (incrC_range _ _ h)
      rw [incrC_length] at this
      exact this

theorem incrC_spec (cells : List Int) (p : Nat) : Spec.incrSatI cells p = incrC cells p := by
  induction cells generalizing p with
  | nil => simp [incrC, Spec.incrSatI]
  | cons c cs ih =>
      cases p with
      | zero =>
          simp only [incrC, List.set_cons_zero, List.getD_cons_zero, Spec.incrSatI]
          congr 1
          split <;> omega
      | succ p =>
          have := ih p
          simp only [incrC, List.set_cons_succ, List.getD_cons_succ, Spec.incrSatI] at this ⊢
          rw [this]

theorem cms_addLoop_one (cur : List Int) (ks : List Nat) (acc : List Int) (hnd : ks.Nodup)
    (hcur : ∀ x ∈ cur, -2147483648 ≤ x ∧ x ≤ 2147483647) :
    ∃ vals, CMS.addLoop cur (ks.map fun k => (k, cur.getD k 0 + 1)) acc = (ks.foldl incrC cur, vals, none) := by
  induction ks generalizing cur acc with
  | nil => exact ⟨_, rfl⟩
  | cons k rest ih =>
      have hk := getD_range cur k hcur
      have hmax : Gen.int32Max = 2147483647 := rfl
      have hmin : Gen.int32Min = -2147483648 := rfl
      obtain ⟨hknot, hnd'⟩ := List.nodup_cons.mp hnd
      have hrest : (rest.map fun k' => (k', cur.getD k' 0 + 1)) =
          rest.map fun k' => (k', (incrC cur k).getD k' 0 + 1) := by
        apply List.map_congr_left
        intro k' hk'
        have : k ≠ k' := fun e => hknot (e ▸ hk')
        simp [incrC, List.getD_eq_getElem?_getD, List.getElem?_set_ne this]
      simp only [List.map_cons, CMS.addLoop, Gen.cmsAddClampCmp, Cmp.evalInt, decide_eq_true_eq, List.foldl_cons]
      by_cases hv : cur.getD k 0 + 1 > Gen.int32Max
      · rw [if_pos hv]
        have : cur.set k Gen.int32Max = incrC cur k := by
          unfold incrC; congr 1; omega
        rw [this, hrest]
        exact ih _ _ hnd' (incrC_range _ _ hcur)
      · rw [if_neg hv, if_neg (by omega)]
        have : cur.set k (cur.getD k 0 + 1) = incrC cur k := by
          unfold incrC; congr 1; omega
        rw [this, hrest]
        exact ih _ _ hnd' (incrC_range _ _ hcur)

theorem cms_idx_nodup (w d : Nat) (hw : 0 < w) (r : Nat → Nat) :
    ((List.range d).map fun i => r i % w + i * w).Nodup := by
  unfold List.Nodup
  rw [List.pairwise_map]
  apply List.Pairwise.imp _ List.pairwise_lt_range
  intro i j hij
  have h1 : (i + 1) * w ≤ j * w := Nat.mul_le_mul_right w hij
  rw [Nat.succ_mul] at h1
  have := Nat.mod_lt (r i) hw
  have := Nat.mod_lt (r j) hw
  omega

/-- one `add` of a key under the default strategy -/
theorem cms_add_default (c : CMS) (key : Key) (hlen : c.bins.length = c.w * c.d) (hw : 0 < c.w)
    (hbins : ∀ x ∈ c.bins, -2147483648 ≤ x ∧ x ≤ 2147483647) :
    (c.addAlt (defaultFnv key c.d) 1).1 =
      { c with bins := ((List.range c.d).map fun i => Spec.hashI key.units i % c.w + i * c.w).foldl incrC c.bins,
               total := if c.total + 1 > 9223372036854775807 then 9223372036854775807 else c.total + 1 } := by
  unfold CMS.addAlt
  rw [binIdx_default]
  have hany : ((List.range c.d).map fun i => Spec.hashI key.units i % c.w + i * c.w).any (· ≥ c.bins.length) = false := by
    simp only [List.any_eq_false, List.mem_map, List.mem_range, decide_eq_true_eq]
    rintro x ⟨i, hi, rfl⟩
    have := cms_idx_lt (d := c.d) hi (Nat.mod_lt (Spec.hashI key.units i) hw)
    omega
  simp only [hany, Bool.false_eq_true, if_false, zip_map_self_rf]
  obtain ⟨vals, hv⟩ := cms_addLoop_one c.bins _ [] (cms_idx_nodup c.w c.d hw (Spec.hashI key.units)) hbins
  rw [hv]
  simp [Gen.cmsTotalMaxCmp, Cmp.evalInt, Gen.int64Max]

theorem cmsRun_eq (w d : Nat) (hw : 0 < w) (keys : List Key) (c0 : CMS) (hcw : c0.w = w) (hcd : c0.d = d)
    (hlen : c0.bins.length = w * d) (hbins : ∀ x ∈ c0.bins, -2147483648 ≤ x ∧ x ≤ 2147483647)
    (ht : c0.total + keys.length ≤ 9223372036854775807) :
    keys.foldl (fun c key => (c.addAlt (defaultFnv key d) 1).1) c0 =
      { c0 with
        bins := (keys.map Key.units).foldl
          (fun arr key => (List.range d).foldl (fun a i => Spec.incrSatI a (i * w + Spec.hashI key i % w)) arr) c0.bins
        total := c0.total + keys.length } := by
  induction keys generalizing c0 with
  | nil => simp
  | cons key keys ih =>
      simp only [List.foldl_cons, List.map_cons, List.length_cons]
      have hstep := cms_add_default c0 key (by rw [hlen, hcw, hcd]) (by omega) hbins
      rw [hcw, hcd] at hstep
      rw [hstep]
      have hinv := foldl_incrC_inv ((List.range d).map fun i => Spec.hashI key.units i % w + i * w) c0.bins hbins
      simp only [List.length_cons] at ht
      rw [ih _ rfl rfl (by simp only; rw [hinv.1, hlen]) (by exact hinv.2) (by simp only; split <;> omega)]
      simp only [CMS.mk.injEq, hcw, hcd, true_and, and_true]
      refine ⟨?_, by split <;> omega⟩
      congr 1
      rw [List.foldl_map]
      congr 1
      funext a i
      rw [incrC_spec, Nat.add_comm]

theorem cms_keys_range (w d : Nat) (keys : List (List Nat)) (cells : List Int)
    (h : ∀ x ∈ cells, -2147483648 ≤ x ∧ x ≤ 2147483647) :
    ∀ x ∈ keys.foldl
        (fun arr key => (List.range d).foldl (fun a i => Spec.incrSatI a (i * w + Spec.hashI key i % w)) arr) cells,
      -2147483648 ≤ x ∧ x ≤ 2147483647 := by
  induction keys generalizing cells with
  | nil => exact h
  | cons key keys ih =>
      simp only [List.foldl_cons]
      apply ih
      have e : (List.range d).foldl (fun a i => Spec.incrSatI a (i * w + Spec.hashI key i % w)) cells
          = ((List.range d).map fun i => i * w + Spec.hashI key i % w).foldl incrC cells := by
        rw [List.foldl_map]; congr 1; funext a i; rw [incrC_spec]
      rw [e]
      exact (foldl_incrC_inv _ cells h).2

/-! ### count-min readers -/

theorem perm_sum_int {l₁ l₂ : List Int} (h : l₁.Perm l₂) : l₁.sum = l₂.sum := by
  induction h with
  | nil => rfl
  | cons x _ ih => simp [ih]
  | swap x y l => simp only [List.sum_cons]; omega
  | trans _ _ ih1 ih2 => rw [ih1, ih2]

theorem at'_append_right (a b : Bytes) (i : Nat) : Spec.at' (a ++ b) (a.length + i) = Spec.at' b i := by
  simp [Spec.at', List.getD_eq_getElem?_getD, List.getElem?_append_right]

theorem rdU32_append_right (a b : Bytes) (off : Nat) :
    Spec.rdU32 (a ++ b) (a.length + off) = Spec.rdU32 b off := by
  unfold Spec.rdU32
  simp only [Nat.add_assoc, at'_append_right]

theorem rdI64_append_right (a b : Bytes) (off : Nat) :
    Spec.rdI64 (a ++ b) (a.length + off) = Spec.rdI64 b off := by
  unfold Spec.rdI64 Spec.rdU64
  simp only [Nat.add_assoc, rdU32_append_right]

theorem rdI64_cmsFooter (w d : Nat) (t : Int) (h0 : -9223372036854775808 ≤ t) (h1 : t ≤ 9223372036854775807) :
    Spec.rdI64 (Spec.cmsFooter w d t) 8 = t := by
  simp only [Spec.rdI64, Spec.rdU64, Spec.rdU32, Spec.cmsFooter, Spec.u32le, Spec.i64le, Spec.u64le, Spec.at',
    List.cons_append, List.nil_append, List.getD_eq_getElem?_getD]
  simp only [List.getElem?_cons_succ, List.getElem?_cons_zero, Option.getD_some]
  split <;> split <;> omega

theorem flatMap_i32le_length (cells : List Int) : (cells.flatMap Spec.i32le).length = 4 * cells.length := by
  induction cells with
  | nil => rfl
  | cons c cs ih =>
      simp only [List.flatMap_cons, List.length_append, List.length_cons, ih]
      simp [Spec.i32le, Spec.u32le]; omega

/-- the footer's `elements_added`, read back from the file -/
theorem rdI64_cmsFile (w d : Nat) (cells : List Int) (t : Int) (hlen : cells.length = w * d)
    (h0 : -9223372036854775808 ≤ t) (h1 : t ≤ 9223372036854775807) :
    Spec.rdI64 (Spec.cmsFileFlat w d cells t) (4 * (w * d) + 8) = t := by
  unfold Spec.cmsFileFlat
  rw [← hlen, ← flatMap_i32le_length, rdI64_append_right, rdI64_cmsFooter w d t h0 h1]

/-- `check` under the default strategy: the query applied to the sorted counters read from the file -/
theorem cms_check_default (c : CMS) (key : Key)
    (hlen : c.bins.length = c.w * c.d) (hw : 0 < c.w)
    (hbins : ∀ x ∈ c.bins, -2147483648 ≤ x ∧ x ≤ 2147483647) :
    c.checkAlt (defaultFnv key c.d) =
      c.query c.total (Spec.cmsSorted c.w c.d (Spec.cmsFileFlat c.w c.d c.bins c.total) key.units) := by
  unfold CMS.checkAlt
  rw [binIdx_default]
  have hany : ((List.range c.d).map fun i => Spec.hashI key.units i % c.w + i * c.w).any (· ≥ c.bins.length) = false := by
    simp only [List.any_eq_false, List.mem_map, List.mem_range, decide_eq_true_eq]
    rintro x ⟨i, hi, rfl⟩
    have := cms_idx_lt (d := c.d) hi (Nat.mod_lt (Spec.hashI key.units i) hw)
    omega
  simp only [hany, Bool.false_eq_true, if_false]
  have hvals : ((List.range c.d).map fun i => Spec.hashI key.units i % c.w + i * c.w).map (fun x => c.bins.getD x 0)
      = (List.range c.d).map (Spec.cmsCellOf c.w (Spec.cmsFileFlat c.w c.d c.bins c.total) key.units) := by
    rw [List.map_map]
    apply List.map_congr_left
    intro i hi
    simp only [Function.comp_def, Spec.cmsCellOf, Spec.cmsFileFlat]
    rw [rdI32_cells _ _ _ (by rw [hlen, Nat.add_comm]; exact cms_idx_lt (List.mem_range.mp hi) (Nat.mod_lt _ hw)) hbins,
      Nat.add_comm]
  rw [hvals]
  rfl

theorem cmsSorted_length (w d : Nat) (file key : Bytes) : (Spec.cmsSorted w d file key).length = d := by
  simp [Spec.cmsSorted]

theorem cmsSorted_sum (w d : Nat) (file key : Bytes) :
    (Spec.cmsSorted w d file key).sum = ((List.range d).map (Spec.cmsCellOf w file key)).sum :=
  perm_sum_int (List.mergeSort_perm _ _)

theorem cmsSorted_head (w d : Nat) (file key : Bytes) :
    (Spec.cmsSorted w d file key).head? = Spec.refReaderCmsMin w d file key := by
  unfold Spec.cmsSorted Spec.refReaderCmsMin
  cases (List.range d).map (Spec.cmsCellOf w file key) with
  | nil => simp
  | cons x xs =>
      obtain ⟨rest, hr⟩ := sortInts_head x xs
      unfold CMS.sortInts at hr
      rw [hr]; rfl

end PyProb
