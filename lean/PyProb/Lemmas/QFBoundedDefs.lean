/-
  BOUNDED CHECKS (tests by kernel evaluation, not proofs of the unbounded claims): Boolean
  checkers that compare the four model paths of the quotient filter with the specification on
  ALL canonical tables `layout 3 false S`, `S` a subset of a small universe `U` (8 slots).
-/
import PyProb.Spec.QF

namespace PyProb.QFBounded
open PyProb PyProb.Spec

/-- all sublists (order preserving), i.e. all subsets of a sorted universe as sorted lists -/
def subsets {α : Type} : List α → List (List α)
  | [] => [[]]
  | x :: xs => let r := subsets xs; r ++ r.map (x :: ·)

def okEq (r : R QF) (t : QF) : Bool :=
  match r with
  | .ok s => s == t
  | .error _ => false

/-- look-up is membership -/
def containedOk (S : List Elem) (x : Elem) : Bool :=
  match QF.containedAtLoc (layout 3 false S) x.1 x.2 with
  | .ok o => o.isSome == S.contains x
  | .error _ => false

/-- the instance of `A1_contained` at `q = 3`, all `S ⊆ U`, all `x ∈ U` -/
def checkContained (U : List Elem) : Bool :=
  (subsets U).all fun S => decide (S.length ≥ 8) || U.all fun x => containedOk S x

/-- iteration lists a permutation of the hashes of `S` -/
def hashesOk (S : List Elem) : Bool :=
  match QF.getHashes (layout 3 false S) with
  | .ok l => l.isPerm (S.map (enc 3))
  | .error _ => false

/-- the instance of `A2_hashes` -/
def checkHashes (U : List Elem) : Bool :=
  (subsets U).all fun S => decide (S.length ≥ 8) || hashesOk S

def addOk (S : List Elem) (x : Elem) : Bool :=
  S.contains x || decide (S.length + 1 ≥ 8) ||
    okEq (QF.addQR (layout 3 false S) x.1 x.2) (layout 3 false (insert x S))

/-- the instance of `B1_add` -/
def checkAdd (U : List Elem) : Bool :=
  (subsets U).all fun S => decide (S.length ≥ 8) || U.all fun x => addOk S x

def removeOk (S : List Elem) (x : Elem) : Bool :=
  okEq (QF.removeQR (layout 3 false S) x.1 x.2) (layout 3 false (erase x S))

/-- the instance of `B2_remove` (and of "removing an absent element changes nothing") -/
def checkRemove (U : List Elem) : Bool :=
  (subsets U).all fun S => decide (S.length ≥ 8) || U.all fun x => removeOk S x

/-- `add_alt` (look-up, then insertion) is set insertion; a full table refuses a new element -/
def addAltOk (S : List Elem) (x : Elem) : Bool :=
  if S.contains x || decide (S.length + 1 < 8) then
    okEq (QF.addAlt 1 (layout 3 false S) (enc 3 x)) (layout 3 false (insert x S))
  else
    match QF.addAlt 1 (layout 3 false S) (enc 3 x) with
    | .error .qfError => true
    | _ => false

def checkAddAlt (U : List Elem) : Bool :=
  (subsets U).all fun S => decide (S.length ≥ 8) || U.all fun x => addAltOk S x

/-- the subsets of `U` are closed under inserting and erasing elements of `U` -/
def checkClosed (U : List Elem) : Bool :=
  (subsets U).all fun S => decide (S.length ≥ 8) ||
    U.all fun x => (subsets U).contains (insert x S) && (subsets U).contains (erase x S)

theorem okEq_iff (r : R QF) (t : QF) : okEq r t = true ↔ r = .ok t := by
  cases r with
  | error e => simp [okEq]
  | ok s => simp [okEq]

/-- what a successful check says, for one subset and one element -/
theorem all_sub {U : List Elem} {f : List Elem → Elem → Bool}
    (h : ((subsets U).all fun S => decide (S.length ≥ 8) || U.all fun x => f S x) = true)
    {S : List Elem} (hS : S ∈ subsets U) (hl : S.length < 8) {x : Elem} (hx : x ∈ U) : f S x = true := by
  rw [List.all_eq_true] at h
  have := h S hS
  rw [Bool.or_eq_true, decide_eq_true_eq, List.all_eq_true] at this
  rcases this with h1 | h1
  · omega
  · exact h1 x hx

theorem closed_sub {U : List Elem} (h : checkClosed U = true) {S : List Elem} (hS : S ∈ subsets U)
    (hl : S.length < 8) {x : Elem} (hx : x ∈ U) :
    insert x S ∈ subsets U ∧ erase x S ∈ subsets U := by
  have := all_sub (f := fun S x => (subsets U).contains (insert x S) && (subsets U).contains (erase x S))
    h hS hl hx
  rw [Bool.and_eq_true, List.contains_iff_mem, List.contains_iff_mem] at this
  exact this

/-- universe A: a run of three at quotient 0, a run wrapping round the end of the table;
    its 7-element subset fills the table up to the one slot that stays empty -/
def UA : List Elem := [(0, 1), (0, 2), (0, 3), (1, 0), (6, 1), (7, 0), (7, 2)]

/-- universe B: adjacent runs in the middle of the table -/
def UB : List Elem := [(2, 0), (2, 5), (3, 1), (3, 4), (4, 2), (5, 3)]

end PyProb.QFBounded
