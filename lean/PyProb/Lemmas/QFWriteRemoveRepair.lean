/-
  The metadata repair pass at the end of `_remove_element`.  It is run on a table `u` that agrees
  with a table `t` in the linear view except that some shifted bits inside one cluster of `t` are
  still set; the pass walks over that cluster and clears exactly those bits.
-/
import PyProb.Lemmas.QFExtRemove

namespace PyProb.QFRem
open PyProb PyProb.QF PyProb.QFLin PyProb.Spec

/-! ### one iteration -/

/-- the update the pass makes at slot `a` -/
def fixAt (s : QF) (a : Nat) : QF :=
  { s with cont := s.cont.set a false, shift := s.shift.set a false, occ := s.occ.set a true }

theorem repair_stop (stop fuel : Nat) (s : QF) (cur : Option Nat) (queue : List Nat) :
    removeRepair stop (fuel + 1) s stop cur queue = .ok s := by
  simp [removeRepair]

theorem repair_step_cont (stop fuel : Nat) (s : QF) (a : Nat) (cur : Option Nat) (queue : List Nat)
    (hne : (a == stop) = false) (hrs : s.isRunStart a = false) :
    removeRepair stop (fuel + 1) s a cur queue =
      removeRepair stop fuel (if cur == some a then fixAt s a else s)
        ((if cur == some a then fixAt s a else s).nxt a) cur
        (if bit s.occ a then queue ++ [a] else queue) := by
  simp only [removeRepair, hne, hrs, Bool.false_eq_true, if_false, fixAt]

theorem repair_step_start (stop fuel : Nat) (s : QF) (a : Nat) (cur : Option Nat) (queue : List Nat)
    (x : Nat) (rest : List Nat)
    (hne : (a == stop) = false) (hrs : s.isRunStart a = true)
    (hq : (if bit s.occ a then queue ++ [a] else queue) = x :: rest) :
    removeRepair stop (fuel + 1) s a cur queue =
      removeRepair stop fuel (if some x == some a then fixAt s a else s)
        ((if some x == some a then fixAt s a else s).nxt a) (some x) rest := by
  simp only [removeRepair, hne, hrs, Bool.false_eq_true, if_false, if_true, hq, fixAt]

theorem set_self_bit (l : List Bool) (a : Nat) (v : Bool) (ha : a < l.length) (h : bit l a = v) :
    l.set a v = l := by
  apply List.ext_getElem (by simp)
  intro i h1 h2
  rw [List.getElem_set]
  split
  · rename_i hai
    subst hai
    simp only [bit, List.getD_eq_getElem?_getD, List.getElem?_eq_getElem ha, Option.getD_some] at h
    exact h.symm
  · rfl

section repair
variable {t : QF} {n e m : Nat} {d r : Nat → Nat}

/-- the queue after the push at the slot of element `i` -/
theorem queue_push (L : Lin t n e m d r) (X : Nat) (hx : X < n) (i : Nat) (hi : i < m)
    (hp : posF d i = X) :
    i < Bfn d m (X + 1) ∧
    (if bit t.occ (io n e X) = true then Qf n e d i (Bfn d m X - i) ++ [io n e X]
      else Qf n e d i (Bfn d m X - i)) = Qf n e d i (Bfn d m (X + 1) - i) := by
  obtain ⟨hA, _⟩ := cell_step d m X i hi hp
  obtain ⟨hBle, hocc, hblock⟩ := home_block L X hx
  have hAB := A_le_B L X
  have hB1 := B_le_m d m (X + 1)
  have haB1 : i < Bfn d m (X + 1) := (B_char L (X + 1) i hi).2 (by have := p_ge_d d i; omega)
  refine ⟨haB1, ?_⟩
  rw [hA] at hAB
  by_cases ho : bit t.occ (io n e X) = true
  · rw [if_pos ho]
    have hlt := hocc.1 ho
    have e1 : Bfn d m (X + 1) - i = (Bfn d m X - i) + ((Bfn d m (X + 1) - Bfn d m X - 1) + 1) := by omega
    rw [e1, Qf_append, show i + (Bfn d m X - i) = Bfn d m X by omega]
    congr 1
    have hb := hblock (Bfn d m X) (Nat.le_refl _) hlt
    simp only [Qf]
    rw [hb.2]
    simp only [ne_eq, not_true_eq_false, decide_false, Bool.false_eq_true, if_false, hb.1]
    rw [Qf_cont]
    intro j h1 h2
    have := hblock j (by omega) (by omega)
    rw [this.2]
    simp only [decide_eq_true_eq]; omega
  · rw [if_neg ho]
    have : ¬ Bfn d m X < Bfn d m (X + 1) := fun hh => ho (hocc.2 hh)
    rw [show Bfn d m (X + 1) = Bfn d m X by omega]

/-- the invariant of the pass on the variable `cur_quot`: it names a slot that has been passed -/
def CurLt (n e X : Nat) (cur : Option Nat) : Prop := ∀ v, cur = some v → ∃ y, y < X ∧ v = io n e y

theorem curLt_ne (n e X : Nat) (hX : X < n) (cur : Option Nat) (h : CurLt n e X cur) :
    (cur == some (io n e X)) = false := by
  cases cur with
  | none => rfl
  | some v =>
      obtain ⟨y, hy, rfl⟩ := h v rfl
      simp only [beq_eq_false_iff_ne, ne_eq, Option.some.injEq]
      exact io_ne n e y X (by omega) hX (by omega)

/-- hypotheses on the table `u` the pass starts with, relative to the target `t`: everything
    agrees, except that shifted bits inside `[pa, pa + len)` may still be set -/
structure Pre (u t : QF) (n e pa len : Nat) : Prop where
  size : u.size = n
  locc : u.occ.length = n
  lcont : u.cont.length = n
  lshift : u.shift.length = n
  occ : ∀ y, y < n → bit u.occ (io n e y) = bit t.occ (io n e y)
  cont : ∀ y, y < n → bit u.cont (io n e y) = bit t.cont (io n e y)
  shift : ∀ y, y < n → bit u.shift (io n e y) = bit t.shift (io n e y) ∨
    (pa ≤ y ∧ y < pa + len ∧ bit u.shift (io n e y) = true)

theorem repair_loop (L : Lin t n e m d r) (u : QF) (pa len a : Nat) (P : Pre u t n e pa len)
    (hcells : ∀ k, k < len → a + k < m ∧ posF d (a + k) = pa + k)
    (hnocell : ∀ i, i < m → posF d i ≠ pa + len) (hend : pa + len + 1 < n) :
    ∀ k' k (sh : List Bool) (cur : Option Nat) fuel, k + k' = len → sh.length = n →
      (∀ y, y < n → pa + k ≤ y → bit sh (io n e y) = bit u.shift (io n e y)) →
      CurLt n e (pa + k) cur → k' + 1 < fuel →
      ∃ sh', removeRepair (io n e (pa + len + 1)) fuel { u with shift := sh } (io n e (pa + k)) cur
          (Qf n e d (a + k) (Bfn d m (pa + k) - (a + k))) = .ok { u with shift := sh' } ∧
        sh'.length = n ∧
        ∀ y, y < n → bit sh' (io n e y) =
          if pa + k ≤ y ∧ y < pa + len then bit t.shift (io n e y) else bit sh (io n e y) := by
  intro k'
  induction k' with
  | zero =>
      intro k sh cur fuel hk hsh hagree hcur hf
      obtain ⟨fuel, rfl⟩ : ∃ f', fuel = f' + 2 := ⟨fuel - 2, by omega⟩
      have hkl : k = len := by omega
      subst hkl
      have hX : pa + k < n := by omega
      have hne : (io n e (pa + k) == io n e (pa + k + 1)) = false := by
        simp only [beq_eq_false_iff_ne]
        exact io_ne n e _ _ hX hend (by omega)
      have hemp := isEmpty_nocell L (pa + k) hX hnocell
      simp only [isEmpty, Bool.and_eq_true, Bool.not_eq_true'] at hemp
      have hshu : bit u.shift (io n e (pa + k)) = false := by
        rcases P.shift (pa + k) hX with h | h
        · rw [h]; exact hemp.2
        · omega
      have hrs : ({ u with shift := sh } : QF).isRunStart (io n e (pa + k)) = false := by
        simp only [isRunStart, P.occ _ hX, P.cont _ hX, hagree _ hX (Nat.le_refl _), hshu, hemp.1.1,
          hemp.1.2]
        rfl
      have hocc : bit ({ u with shift := sh } : QF).occ (io n e (pa + k)) = false := by
        show bit u.occ _ = false
        rw [P.occ _ hX]; exact hemp.1.1
      rw [repair_step_cont _ _ _ _ _ _ hne hrs, curLt_ne n e _ hX cur hcur, hocc]
      simp only [Bool.false_eq_true, if_false]
      have hnx : ({ u with shift := sh } : QF).nxt (io n e (pa + k)) = io n e (pa + k + 1) :=
        nxt_io _ n e _ P.size
      rw [hnx, repair_stop]
      refine ⟨sh, rfl, hsh, ?_⟩
      intro y hy
      rw [if_neg (by omega)]
  | succ k' ih =>
      intro k sh cur fuel hk hsh hagree hcur hf
      obtain ⟨fuel, rfl⟩ : ∃ f', fuel = f' + 1 := ⟨fuel - 1, by omega⟩
      obtain ⟨him, hp⟩ := hcells k (by omega)
      have hX : pa + k < n := by omega
      have hne : (io n e (pa + k) == io n e (pa + len + 1)) = false := by
        simp only [beq_eq_false_iff_ne]
        exact io_ne n e _ _ hX hend (by omega)
      -- the bits the pass reads at this slot
      have hoccb : bit ({ u with shift := sh } : QF).occ (io n e (pa + k)) = bit t.occ (io n e (pa + k)) :=
        P.occ _ hX
      have hcontb : bit u.cont (io n e (pa + k)) = contF d (a + k) := by
        rw [P.cont _ hX, ← hp]; exact cont_cell L _ him
      have hos := occ_or_shift_cell L (a + k) him
      rw [hp] at hos
      have hshb : bit sh (io n e (pa + k)) = bit u.shift (io n e (pa + k)) := hagree _ hX (Nat.le_refl _)
      have hshift_t : bit t.shift (io n e (pa + k)) = decide (posF d (a + k) ≠ d (a + k)) := by
        rw [← hp]; exact L.shift _ him
      have hrs : ({ u with shift := sh } : QF).isRunStart (io n e (pa + k)) = !contF d (a + k) := by
        simp only [isRunStart, hcontb, hshb, P.occ _ hX]
        rcases P.shift (pa + k) hX with h | h
        · rw [h, hos, Bool.and_true]
        · rw [h.2.2, Bool.or_true, Bool.and_true]
      obtain ⟨hiB, hpush⟩ := queue_push L (pa + k) hX (a + k) him hp
      have hnx : ∀ sh' : List Bool, ({ u with shift := sh' } : QF).nxt (io n e (pa + k)) =
          io n e (pa + (k + 1)) := by
        intro sh'; rw [nxt_io _ n e _ (show ({ u with shift := sh' } : QF).size = n from P.size)]; rfl
      have hstep : a + k + 1 = a + (k + 1) := by omega
      -- a slot that is not a new cluster start keeps its (set) shifted bit
      have hkeep : posF d (a + k) ≠ d (a + k) → bit u.shift (io n e (pa + k)) = bit t.shift (io n e (pa + k)) := by
        intro hsh'
        rcases P.shift (pa + k) hX with h | h
        · exact h
        · rw [h.2.2, hshift_t]; simp [hsh']
      cases hca : contF d (a + k)
      · -- a run start: pop its quotient
        have hqf : Qf n e d (a + k) (Bfn d m (pa + k + 1) - (a + k)) =
            io n e (d (a + k)) :: Qf n e d (a + k + 1) (Bfn d m (pa + k + 1) - (a + k + 1)) := by
          rw [show Bfn d m (pa + k + 1) - (a + k) = (Bfn d m (pa + k + 1) - (a + k + 1)) + 1 by omega]
          simp only [Qf, hca, Bool.false_eq_true, if_false]
        rw [hca] at hrs
        rw [repair_step_start _ _ _ _ _ _ _ _ hne hrs (by rw [hoccb, hpush, hqf])]
        have hcur' : CurLt n e (pa + (k + 1)) (some (io n e (d (a + k)))) := by
          intro v hv
          cases hv
          exact ⟨d (a + k), by have := p_ge_d d (a + k); omega, rfl⟩
        by_cases hhome : posF d (a + k) = d (a + k)
        · -- a new cluster start: the pass repairs the slot
          have hbeq : (some (io n e (d (a + k))) == some (io n e (pa + k))) = true := by
            rw [← hhome, hp]; simp
          rw [hbeq]
          simp only [if_true]
          have hocc1 : bit u.occ (io n e (pa + k)) = true := by
            rw [P.occ _ hX]; exact (L.occ _ hX).2 ⟨a + k, him, by omega⟩
          have hfix : fixAt { u with shift := sh } (io n e (pa + k)) =
              { u with shift := sh.set (io n e (pa + k)) false } := by
            simp only [fixAt]
            rw [set_self_bit u.cont _ false (by rw [P.lcont]; exact io_lt n e _ (by omega)) (by rw [hcontb, hca]),
              set_self_bit u.occ _ true (by rw [P.locc]; exact io_lt n e _ (by omega)) hocc1]
          rw [hfix, hnx]
          obtain ⟨sh', h1, h2, h3⟩ := ih (k + 1) (sh.set (io n e (pa + k)) false)
            (some (io n e (d (a + k)))) fuel (by omega) (by simp [hsh])
            (by
              intro y hy hge
              rw [bit_set_io sh n e (pa + k) y false hsh hX hy, if_neg (by omega)]
              exact hagree y hy (by omega))
            hcur' (by omega)
          rw [show pa + k + 1 = pa + (k + 1) by omega, hstep] at *
          refine ⟨sh', h1, h2, ?_⟩
          intro y hy
          rw [h3 y hy]
          by_cases hy1 : pa + (k + 1) ≤ y ∧ y < pa + len
          · rw [if_pos hy1, if_pos (by omega)]
          · rw [if_neg hy1, bit_set_io sh n e (pa + k) y false hsh hX hy]
            by_cases hy2 : pa + k = y
            · subst hy2
              rw [if_pos rfl, if_pos (by omega), hshift_t]
              simp [hhome]
            · rw [if_neg hy2, if_neg (by omega)]
        · -- a shifted run start: nothing changes
          have hbeq : (some (io n e (d (a + k))) == some (io n e (pa + k))) = false := by
            simp only [beq_eq_false_iff_ne, ne_eq, Option.some.injEq]
            exact io_ne n e _ _ (by have := p_ge_d d (a + k); omega) hX (by omega)
          rw [hbeq]
          simp only [Bool.false_eq_true, if_false]
          rw [hnx]
          obtain ⟨sh', h1, h2, h3⟩ := ih (k + 1) sh (some (io n e (d (a + k)))) fuel (by omega) hsh
            (fun y hy hge => hagree y hy (by omega)) hcur' (by omega)
          rw [show pa + k + 1 = pa + (k + 1) by omega, hstep] at *
          refine ⟨sh', h1, h2, ?_⟩
          intro y hy
          rw [h3 y hy]
          by_cases hy1 : pa + (k + 1) ≤ y ∧ y < pa + len
          · rw [if_pos hy1, if_pos (by omega)]
          · rw [if_neg hy1]
            by_cases hy2 : pa + k = y
            · subst hy2
              rw [if_pos (by omega), hshb, hkeep hhome]
            · rw [if_neg (by omega)]
      · -- a continuation: nothing changes
        have hqf : Qf n e d (a + k) (Bfn d m (pa + k + 1) - (a + k)) =
            Qf n e d (a + k + 1) (Bfn d m (pa + k + 1) - (a + k + 1)) := by
          rw [show Bfn d m (pa + k + 1) - (a + k) = (Bfn d m (pa + k + 1) - (a + k + 1)) + 1 by omega]
          simp only [Qf, hca, if_true]
        rw [hca] at hrs
        have hhome : posF d (a + k) ≠ d (a + k) := by
          intro h; rw [contF_home d _ h] at hca; cases hca
        rw [repair_step_cont _ _ _ _ _ _ hne hrs, curLt_ne n e _ hX cur hcur, hoccb, hpush, hqf]
        simp only [Bool.false_eq_true, if_false]
        rw [hnx]
        have hcur' : CurLt n e (pa + (k + 1)) cur := by
          intro v hv
          obtain ⟨y, hy, hvy⟩ := hcur v hv
          exact ⟨y, by omega, hvy⟩
        obtain ⟨sh', h1, h2, h3⟩ := ih (k + 1) sh cur fuel (by omega) hsh
          (fun y hy hge => hagree y hy (by omega)) hcur' (by omega)
        rw [show pa + k + 1 = pa + (k + 1) by omega, hstep] at *
        refine ⟨sh', h1, h2, ?_⟩
        intro y hy
        rw [h3 y hy]
        by_cases hy1 : pa + (k + 1) ≤ y ∧ y < pa + len
        · rw [if_pos hy1, if_pos (by omega)]
        · rw [if_neg hy1]
          by_cases hy2 : pa + k = y
          · subst hy2
            rw [if_pos (by omega), hshb, hkeep hhome]
          · rw [if_neg (by omega)]

/-- the whole pass: all shifted bits end up as in the target table -/
theorem repair_spec (L : Lin t n e m d r) (u : QF) (pa len a : Nat) (P : Pre u t n e pa len)
    (hcells : ∀ k, k < len → a + k < m ∧ posF d (a + k) = pa + k)
    (hnocell : ∀ i, i < m → posF d i ≠ pa + len) (hend : pa + len + 1 < n)
    (hB : Bfn d m pa ≤ a) :
    ∃ sh', removeRepair (io n e (pa + len + 1)) u.fuelOf u (io n e pa) none [] =
        .ok { u with shift := sh' } ∧ sh'.length = n ∧
      ∀ y, y < n → bit sh' (io n e y) = bit t.shift (io n e y) := by
  obtain ⟨sh', h1, h2, h3⟩ := repair_loop L u pa len a P hcells hnocell hend len 0 u.shift none u.fuelOf
    (by omega) P.lshift (fun _ _ _ => rfl) (by intro v hv; cases hv)
    (by simp only [fuelOf, P.size]; omega)
  simp only [Nat.add_zero] at h1 h3
  rw [show Bfn d m pa - a = 0 by omega] at h1
  refine ⟨sh', h1, h2, ?_⟩
  intro y hy
  rw [h3 y hy]
  by_cases hy1 : pa ≤ y ∧ y < pa + len
  · rw [if_pos hy1]
  · rw [if_neg hy1]
    rcases P.shift y hy with h | h
    · exact h
    · omega

end repair
end PyProb.QFRem
