/-
  The "linear view" of a canonical quotient-filter table and the correctness of the READ paths on
  it (Layer A).  A table `s` with `n` slots is read from slot `e + 1` round to slot `e` (`io n e x`
  is the slot at distance `x`); it stores `m` elements, element `i` having home distance `d i`,
  remainder `r i` and position `posF d i`.  `Lin s n e m d r` says that the four arrays of `s` are
  exactly that; from it we prove that `_get_start_index`, `_contained_at_loc` terminate and are
  correct.  No wrap-around happens in this view because slot `e` (distance `n - 1`) is empty.
-/
import PyProb.Model.QF

namespace PyProb.QFLin
open PyProb PyProb.QF

/-- the slot at distance `x` from slot `e + 1` -/
def io (n e x : Nat) : Nat := (e + 1 + x) % n

/-- the position (distance) of element `i`: its home, or directly behind its predecessor -/
def posF (d : Nat → Nat) : Nat → Nat
  | 0 => d 0
  | i + 1 => max (posF d i + 1) (d (i + 1))

structure Lin (s : QF) (n e m : Nat) (d r : Nat → Nat) : Prop where
  n2 : 2 ≤ n
  size : s.size = n
  he : e < n
  sorted : ∀ i, i + 1 < m → d i < d (i + 1) ∨ (d i = d (i + 1) ∧ r i < r (i + 1))
  fit : ∀ i, i < m → posF d i + 2 ≤ n
  cont : ∀ i, i < m → bit s.cont (io n e (posF d i)) = (decide (i ≠ 0) && decide (d i = d (i - 1)))
  shift : ∀ i, i < m → bit s.shift (io n e (posF d i)) = decide (posF d i ≠ d i)
  rem : ∀ i, i < m → s.remAt (io n e (posF d i)) = r i
  nocell : ∀ x, x < n → (∀ i, i < m → posF d i ≠ x) →
    bit s.cont (io n e x) = false ∧ bit s.shift (io n e x) = false
  occ : ∀ x, x < n → (bit s.occ (io n e x) = true ↔ ∃ i, i < m ∧ d i = x)

/-! ### slots -/

theorem nxt_io (s : QF) (n e x : Nat) (hs : s.size = n) : s.nxt (io n e x) = io n e (x + 1) := by
  simp only [nxt, io, hs]
  rw [Nat.mod_add_mod, Nat.add_assoc]

theorem prv_io (s : QF) (n e x : Nat) (hs : s.size = n) (hn : 0 < n) (hx : 1 ≤ x) :
    s.prv (io n e x) = io n e (x - 1) := by
  simp only [prv, io, hs]
  have h1 : (e + 1 + x) % n + n - 1 = (e + 1 + x) % n + (n - 1) := by omega
  rw [h1, Nat.mod_add_mod]
  have h2 : e + 1 + x + (n - 1) = e + 1 + (x - 1) + n := by omega
  rw [h2, Nat.add_mod_right]

theorem io_inj (n e x y : Nat) (hx : x < n) (hy : y < n) (h : io n e x = io n e y) : x = y := by
  simp only [io] at h
  by_cases hxy : x ≤ y
  · have := Nat.sub_mod_eq_zero_of_mod_eq h.symm
    have e1 : e + 1 + y - (e + 1 + x) = y - x := by omega
    rw [e1, Nat.mod_eq_of_lt (by omega)] at this; omega
  · have := Nat.sub_mod_eq_zero_of_mod_eq h
    have e1 : e + 1 + x - (e + 1 + y) = x - y := by omega
    rw [e1, Nat.mod_eq_of_lt (by omega)] at this; omega

/-! ### positions -/

theorem p_ge_d (d : Nat → Nat) (i : Nat) : d i ≤ posF d i := by
  cases i with
  | zero => simp [posF]
  | succ i => simp only [posF]; omega

theorem p_step (d : Nat → Nat) (i : Nat) : posF d i + 1 ≤ posF d (i + 1) := by
  simp only [posF]; omega

theorem p_mono (d : Nat → Nat) (i k : Nat) (h : i ≤ k) : posF d i + (k - i) ≤ posF d k := by
  induction k with
  | zero => have : i = 0 := by omega
            subst this; simp
  | succ k ih =>
      by_cases hik : i = k + 1
      · subst hik; simp
      · have := ih (by omega)
        have := p_step d k
        omega

theorem p_lt (d : Nat → Nat) (i k : Nat) (h : i < k) : posF d i < posF d k := by
  have := p_mono d i k (by omega); omega

theorem p_inj (d : Nat → Nat) (i k : Nat) (h : posF d i = posF d k) : i = k := by
  by_cases h1 : i < k
  · have := p_lt d i k h1; omega
  · by_cases h2 : k < i
    · have := p_lt d k i h2; omega
    · omega

theorem p_shifted (d : Nat → Nat) (i : Nat) (h : posF d (i + 1) ≠ d (i + 1)) :
    posF d (i + 1) = posF d i + 1 := by
  simp only [posF] at *; omega

section lin
variable {s : QF} {n e m : Nat} {d r : Nat → Nat}

theorem d_mono (L : Lin s n e m d r) (i k : Nat) (h : i ≤ k) (hk : k < m) : d i ≤ d k := by
  induction k with
  | zero => have : i = 0 := by omega
            subst this; exact Nat.le_refl _
  | succ k ih =>
      by_cases hik : i = k + 1
      · subst hik; exact Nat.le_refl _
      · have := ih (by omega) (by omega)
        have := L.sorted k hk
        omega

/-- every element belongs to a cluster: a block of consecutive positions that starts with an
    element at home and in which every other element is shifted -/
theorem cluster (d : Nat → Nat) (i : Nat) :
    ∃ a, a ≤ i ∧ posF d a = d a ∧ ∀ k, a < k → k ≤ i → posF d k ≠ d k := by
  induction i with
  | zero => exact ⟨0, Nat.le_refl _, rfl, by intro k h1 h2; omega⟩
  | succ i ih =>
      by_cases h : posF d (i + 1) = d (i + 1)
      · exact ⟨i + 1, Nat.le_refl _, h, by intro k h1 h2; omega⟩
      · obtain ⟨a, ha, hpa, hk⟩ := ih
        refine ⟨a, by omega, hpa, ?_⟩
        intro k h1 h2
        by_cases hki : k = i + 1
        · subst hki; exact h
        · exact hk k h1 (by omega)

theorem contig (d : Nat → Nat) (a i : Nat) (h : ∀ k, a < k → k ≤ i → posF d k ≠ d k) (k : Nat)
    (hak : a ≤ k) (hki : k ≤ i) : posF d k = posF d a + (k - a) := by
  induction k with
  | zero => have : a = 0 := by omega
            subst this; simp
  | succ k ih =>
      by_cases hak' : a = k + 1
      · subst hak'; simp
      · have h1 := ih (by omega) (by omega)
        have h2 := p_shifted d k (h (k + 1) (by omega) hki)
        omega

end lin
end PyProb.QFLin
