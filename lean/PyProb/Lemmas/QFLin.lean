/-
  The "linear view" of a canonical quotient-filter table and the correctness of the READ paths on
  it (Layer A).  A table `s` with `n` slots is read from slot `e + 1` round to slot `e` (`io n e x`
  is the slot at distance `x`); it stores `m` elements, element `i` having home distance `d i`,
  remainder `r i` and position `posF d i`.  `Lin s n e m d r` says that the four arrays of `s` are
  exactly that; from it we prove that `_get_start_index`, `_contained_at_loc` terminate and are
  correct.  No wrap-around happens in this view because slot `e` (distance `n - 1`) is empty.
-/
import PyProb.Model.QF

namespace PyProb.QFLin
open PyProb PyProb.QF

/-- the slot at distance `x` from slot `e + 1` -/
def io (n e x : Nat) : Nat := (e + 1 + x) % n

/-- the position (distance) of element `i`: its home, or directly behind its predecessor -/
def posF (d : Nat → Nat) : Nat → Nat
  | 0 => d 0
  | i + 1 => max (posF d i + 1) (d (i + 1))

structure Lin (s : QF) (n e m : Nat) (d r : Nat → Nat) : Prop where
  n2 : 2 ≤ n
  size : s.size = n
  he : e < n
  sorted : ∀ i, i + 1 < m → d i < d (i + 1) ∨ (d i = d (i + 1) ∧ r i < r (i + 1))
  fit : ∀ i, i < m → posF d i + 2 ≤ n
  cont : ∀ i, i < m → bit s.cont (io n e (posF d i)) = (decide (i ≠ 0) && decide (d i = d (i - 1)))
  shift : ∀ i, i < m → bit s.shift (io n e (posF d i)) = decide (posF d i ≠ d i)
  rem : ∀ i, i < m → s.remAt (io n e (posF d i)) = r i
  nocell : ∀ x, x < n → (∀ i, i < m → posF d i ≠ x) →
    bit s.cont (io n e x) = false ∧ bit s.shift (io n e x) = false
  occ : ∀ x, x < n → (bit s.occ (io n e x) = true ↔ ∃ i, i < m ∧ d i = x)

/-! ### slots -/

theorem nxt_io (s : QF) (n e x : Nat) (hs : s.size = n) : s.nxt (io n e x) = io n e (x + 1) := by
  simp only [nxt, io, hs]
  rw [Nat.mod_add_mod, Nat.add_assoc]

theorem prv_io (s : QF) (n e x : Nat) (hs : s.size = n) (hn : 0 < n) (hx : 1 ≤ x) :
    s.prv (io n e x) = io n e (x - 1) := by
  simp only [prv, io, hs]
  have h1 : (e + 1 + x) % n + n - 1 = (e + 1 + x) % n + (n - 1) := by omega
  rw [h1, Nat.mod_add_mod]
  have h2 : e + 1 + x + (n - 1) = e + 1 + (x - 1) + n := by omega
  rw [h2, Nat.add_mod_right]

theorem io_inj (n e x y : Nat) (hx : x < n) (hy : y < n) (h : io n e x = io n e y) : x = y := by
  simp only [io] at h
  by_cases hxy : x ≤ y
  · have := Nat.sub_mod_eq_zero_of_mod_eq h.symm
    have e1 : e + 1 + y - (e + 1 + x) = y - x := by omega
    rw [e1, Nat.mod_eq_of_lt (by omega)] at this; omega
  · have := Nat.sub_mod_eq_zero_of_mod_eq h
    have e1 : e + 1 + x - (e + 1 + y) = x - y := by omega
    rw [e1, Nat.mod_eq_of_lt (by omega)] at this; omega

/-! ### positions -/

theorem p_ge_d (d : Nat → Nat) (i : Nat) : d i ≤ posF d i := by
  cases i with
  | zero => simp [posF]
  | succ i => simp only [posF]; omega

theorem p_step (d : Nat → Nat) (i : Nat) : posF d i + 1 ≤ posF d (i + 1) := by
  simp only [posF]; omega

theorem p_mono (d : Nat → Nat) (i k : Nat) (h : i ≤ k) : posF d i + (k - i) ≤ posF d k := by
  induction k with
  | zero => have : i = 0 := by omega
            subst this; simp
  | succ k ih =>
      by_cases hik : i = k + 1
      · subst hik; simp
      · have := ih (by omega)
        have := p_step d k
        omega

theorem p_lt (d : Nat → Nat) (i k : Nat) (h : i < k) : posF d i < posF d k := by
  have := p_mono d i k (by omega); omega

theorem p_inj (d : Nat → Nat) (i k : Nat) (h : posF d i = posF d k) : i = k := by
  by_cases h1 : i < k
  · have := p_lt d i k h1; omega
  · by_cases h2 : k < i
    · have := p_lt d k i h2; omega
    · omega

theorem p_shifted (d : Nat → Nat) (i : Nat) (h : posF d (i + 1) ≠ d (i + 1)) :
    posF d (i + 1) = posF d i + 1 := by
  simp only [posF] at *; omega

section lin
variable {s : QF} {n e m : Nat} {d r : Nat → Nat}

theorem d_mono (L : Lin s n e m d r) (i k : Nat) (h : i ≤ k) (hk : k < m) : d i ≤ d k := by
  induction k with
  | zero => have : i = 0 := by omega
            subst this; exact Nat.le_refl _
  | succ k ih =>
      by_cases hik : i = k + 1
      · subst hik; exact Nat.le_refl _
      · have := ih (by omega) (by omega)
        have := L.sorted k hk
        omega

/-- every element belongs to a cluster: a block of consecutive positions that starts with an
    element at home and in which every other element is shifted -/
theorem cluster (d : Nat → Nat) (i : Nat) :
    ∃ a, a ≤ i ∧ posF d a = d a ∧ ∀ k, a < k → k ≤ i → posF d k ≠ d k := by
  induction i with
  | zero => exact ⟨0, Nat.le_refl _, rfl, by intro k h1 h2; omega⟩
  | succ i ih =>
      by_cases h : posF d (i + 1) = d (i + 1)
      · exact ⟨i + 1, Nat.le_refl _, h, by intro k h1 h2; omega⟩
      · obtain ⟨a, ha, hpa, hk⟩ := ih
        refine ⟨a, by omega, hpa, ?_⟩
        intro k h1 h2
        by_cases hki : k = i + 1
        · subst hki; exact h
        · exact hk k h1 (by omega)

theorem contig (d : Nat → Nat) (a i : Nat) (h : ∀ k, a < k → k ≤ i → posF d k ≠ d k) (k : Nat)
    (hak : a ≤ k) (hki : k ≤ i) : posF d k = posF d a + (k - a) := by
  induction k with
  | zero => have : a = 0 := by omega
            subst this; simp
  | succ k ih =>
      by_cases hak' : a = k + 1
      · subst hak'; simp
      · have h1 := ih (by omega) (by omega)
        have h2 := p_shifted d k (h (k + 1) (by omega) hki)
        omega

end lin

/-! ### counting over an interval -/

/-- number of `j` in `[lo, lo + len)` with `P j` -/
def cntP (P : Nat → Bool) (lo len : Nat) : Nat := (List.range' lo len).countP P

theorem cntP_zero (P : Nat → Bool) (lo : Nat) : cntP P lo 0 = 0 := rfl

theorem cntP_succ_bot (P : Nat → Bool) (lo len : Nat) :
    cntP P lo (len + 1) = (if P lo then 1 else 0) + cntP P (lo + 1) len := by
  simp only [cntP, List.range'_succ, List.countP_cons]; omega

theorem cntP_succ_top (P : Nat → Bool) (lo len : Nat) :
    cntP P lo (len + 1) = cntP P lo len + (if P (lo + len) then 1 else 0) := by
  simp only [cntP, List.range'_concat, List.countP_append, List.countP_cons, List.countP_nil]
  simp

theorem cntP_add (P : Nat → Bool) (lo a b : Nat) : cntP P lo (a + b) = cntP P lo a + cntP P (lo + a) b := by
  induction b with
  | zero => simp [cntP_zero]
  | succ b ih =>
      rw [← Nat.add_assoc, cntP_succ_top, cntP_succ_top, ih]
      simp only [Nat.add_assoc]

theorem cntP_false (P : Nat → Bool) (lo len : Nat) (h : ∀ j, lo ≤ j → j < lo + len → P j = false) :
    cntP P lo len = 0 := by
  induction len with
  | zero => rfl
  | succ len ih =>
      rw [cntP_succ_top, ih (fun j h1 h2 => h j h1 (by omega)), h (lo + len) (by omega) (by omega)]
      simp

theorem cntP_congr (P Q : Nat → Bool) (lo len : Nat) (h : ∀ j, lo ≤ j → j < lo + len → P j = Q j) :
    cntP P lo len = cntP Q lo len := by
  induction len with
  | zero => rfl
  | succ len ih =>
      rw [cntP_succ_top, cntP_succ_top, ih (fun j h1 h2 => h j h1 (by omega)),
        h (lo + len) (by omega) (by omega)]

theorem exists_first (P : Nat → Prop) (i : Nat) (h : P i) : ∃ f, f ≤ i ∧ P f ∧ ∀ k, k < f → ¬ P k := by
  induction i using Nat.strongRecOn with
  | _ i ih =>
      by_cases hex : ∃ k, k < i ∧ P k
      · obtain ⟨k, hk, hpk⟩ := hex
        obtain ⟨f, hf, hpf, hmin⟩ := ih k hk hpk
        exact ⟨f, by omega, hpf, hmin⟩
      · exact ⟨i, Nat.le_refl _, h, fun k hk hp => hex ⟨k, hk, hp⟩⟩

section lin2
variable {s : QF} {n e m : Nat} {d r : Nat → Nat}

/-- "is a continuation", as a function of the element index -/
def contF (d : Nat → Nat) (i : Nat) : Bool := decide (i ≠ 0) && decide (d i = d (i - 1))

/-- the home of an element is the position of some (earlier or equal) element -/
theorem pos_of_home (L : Lin s n e m d r) (f : Nat) (hf : f < m) :
    ∃ k, k ≤ f ∧ posF d k = d f := by
  obtain ⟨a, ha, hpa, hk⟩ := cluster d f
  have hc := contig d a f hk
  have h1 : d a ≤ d f := d_mono L a f ha hf
  have h2 := p_ge_d d f
  have h3 := hc f ha (Nat.le_refl _)
  refine ⟨a + (d f - posF d a), by omega, ?_⟩
  rw [hc _ (by omega) (by omega)]; omega

theorem isEmpty_cell (L : Lin s n e m d r) (i : Nat) (hi : i < m) :
    s.isEmpty (io n e (posF d i)) = false := by
  by_cases h : posF d i = d i
  · have hx : posF d i < n := by have := L.fit i hi; omega
    have : bit s.occ (io n e (posF d i)) = true := (L.occ _ hx).2 ⟨i, hi, h.symm⟩
    simp [isEmpty, this]
  · have := L.shift i hi
    simp only [h, ne_eq, not_false_eq_true, decide_true] at this
    simp [isEmpty, this]

theorem isEmpty_nocell (L : Lin s n e m d r) (x : Nat) (hx : x < n)
    (h : ∀ i, i < m → posF d i ≠ x) : s.isEmpty (io n e x) = true := by
  obtain ⟨h1, h2⟩ := L.nocell x hx h
  have h3 : bit s.occ (io n e x) = false := by
    cases ho : bit s.occ (io n e x)
    · rfl
    · obtain ⟨f, hf, hdf⟩ := (L.occ x hx).1 ho
      obtain ⟨k, hk, hpk⟩ := pos_of_home L f hf
      exact absurd (hpk.trans hdf) (h k (by omega))
  simp [isEmpty, h1, h2, h3]

/-! ### `_get_start_index` -/

/-- the first loop: from distance `c + k` down to the first unshifted slot `c` -/
theorem startBack_walk (hs : s.size = n) (hn : 0 < n) (qq c : Nat)
    (hc : bit s.shift (io n e c) = false) :
    ∀ k j acc fuel, j = c + k →
      (∀ j', c < j' → j' ≤ j → bit s.shift (io n e j') = true) → k < fuel →
      startBack s qq fuel (io n e j) acc =
        .ok (io n e c, acc + cntP (fun j' => io n e j' == qq || bit s.occ (io n e j')) c (k + 1)) := by
  intro k
  induction k with
  | zero =>
      intro j acc fuel hj _ hf
      obtain ⟨fuel, rfl⟩ : ∃ f', fuel = f' + 1 := ⟨fuel - 1, by omega⟩
      simp only [Nat.add_zero] at hj
      subst hj
      simp only [startBack, hc, Bool.false_eq_true, if_false, cntP_succ_bot, cntP_zero]
      congr 2
      split <;> simp
  | succ k ih =>
      intro j acc fuel hj hsh hf
      obtain ⟨fuel, rfl⟩ : ∃ f', fuel = f' + 1 := ⟨fuel - 1, by omega⟩
      have hshj := hsh j (by omega) (Nat.le_refl _)
      simp only [startBack, hshj, if_true]
      rw [prv_io s n e j hs hn (by omega)]
      rw [ih (j - 1) _ fuel (by omega) (fun j' h1 h2 => hsh j' h1 (by omega)) (by omega)]
      rw [cntP_succ_top _ c (k + 1)]
      have : c + (k + 1) = j := by omega
      rw [this]
      by_cases hP : (io n e j == qq || bit s.occ (io n e j)) = true
      · simp only [hP, if_true]; congr 2; omega
      · simp only [hP]; rfl

/-- the number of occupied homes between two homes is the number of run starts between the two
    elements -/
theorem count_runs (L : Lin s n e m d r) (a : Nat) (ha : contF d a = false) :
    ∀ t, a + t < m →
      cntP (fun j => bit s.occ (io n e j)) (d a) (d (a + t) - d a + 1) =
        cntP (fun k => !contF d k) a (t + 1) := by
  intro t
  induction t with
  | zero =>
      intro hm
      have hx : d a < n := by have := L.fit a hm; have := p_ge_d d a; omega
      have : bit s.occ (io n e (d a)) = true := (L.occ _ hx).2 ⟨a, hm, rfl⟩
      simp [cntP_succ_bot, cntP_zero, this, ha]
  | succ t ih =>
      intro hm
      have ih := ih (by omega)
      have hmono : d a ≤ d (a + t) := d_mono L a (a + t) (by omega) (by omega)
      rw [cntP_succ_top _ a (t + 1), ← ih]
      have hso := L.sorted (a + t) (by omega)
      rw [show a + (t + 1) = a + t + 1 by omega]
      by_cases heq : d (a + t) = d (a + t + 1)
      · have : contF d (a + t + 1) = true := by simp [contF, heq]
        rw [this, ← heq]
        simp
      · have hlt : d (a + t) < d (a + t + 1) := by omega
        have hnc : contF d (a + t + 1) = false := by
          simp only [contF, Nat.add_sub_cancel, Bool.and_eq_false_iff, decide_eq_false_iff_not]
          right; omega
        rw [hnc]
        have hsplit : d (a + t + 1) - d a + 1 = (d (a + t) - d a + 1) + ((d (a + t + 1) - d (a + t) - 1) + 1) := by
          omega
        rw [hsplit, cntP_add]
        congr 1
        rw [cntP_succ_top (fun j => bit s.occ (io n e j)) (d a + (d (a + t) - d a + 1))
          (d (a + t + 1) - d (a + t) - 1)]
        have hx : d (a + t + 1) < n := by
          have := L.fit (a + t + 1) (by omega); have := p_ge_d d (a + t + 1); omega
        have h1 : bit s.occ (io n e (d (a + t + 1))) = true := (L.occ _ hx).2 ⟨a + t + 1, by omega, rfl⟩
        have h2 : d a + (d (a + t) - d a + 1) + (d (a + t + 1) - d (a + t) - 1) = d (a + t + 1) := by omega
        rw [h2, h1]
        rw [cntP_false]
        · simp
        · intro j hj1 hj2
          cases ho : bit s.occ (io n e j)
          · rfl
          · exfalso
            obtain ⟨i, hi, hdi⟩ := (L.occ j (by omega)).1 ho
            by_cases hia : i ≤ a + t
            · have := d_mono L i (a + t) hia (by omega); omega
            · have := d_mono L (a + t + 1) i (by omega) hi; omega

/-- the second loop: from the cluster start over `cnts - 1` run starts -/
theorem startFwd_walk (L : Lin s n e m d r) (a f : Nat) (hf : f < m)
    (hcontig : ∀ k, a ≤ k → k ≤ f → posF d k = posF d a + (k - a)) (hncf : contF d f = false) :
    ∀ t k cnts fuel, f = k + t → a ≤ k → cnts = cntP (fun k => !contF d k) k (t + 1) → t < fuel →
      startFwd s fuel (io n e (posF d k)) cnts = .ok (io n e (posF d f)) := by
  intro t
  induction t with
  | zero =>
      intro k cnts fuel hk hak hc hfu
      obtain ⟨fuel, rfl⟩ : ∃ f', fuel = f' + 1 := ⟨fuel - 1, by omega⟩
      simp only [Nat.add_zero] at hk
      subst hk
      have hcb := L.cont f hf
      rw [show (decide (f ≠ 0) && decide (d f = d (f - 1))) = contF d f from rfl, hncf] at hcb
      simp only [cntP_succ_bot, cntP_zero, hncf] at hc
      simp [startFwd, hcb, hc]
  | succ t ih =>
      intro k cnts fuel hk hak hc hfu
      obtain ⟨fuel, rfl⟩ : ∃ f', fuel = f' + 1 := ⟨fuel - 1, by omega⟩
      have hkm : k < m := by omega
      have hcb := L.cont k hkm
      rw [show (decide (k ≠ 0) && decide (d k = d (k - 1))) = contF d k from rfl] at hcb
      have hnext : s.nxt (io n e (posF d k)) = io n e (posF d (k + 1)) := by
        rw [nxt_io s n e _ L.size, hcontig k hak (by omega), hcontig (k + 1) (by omega) (by omega)]
        congr 1; omega
      rw [cntP_succ_bot] at hc
      have hpos : 1 ≤ cntP (fun k => !contF d k) (k + 1) (t + 1) := by
        rw [cntP_succ_top, show k + 1 + t = f by omega, hncf]; simp
      cases hck : contF d k
      · -- a run start that is not the last one
        rw [hck] at hcb hc
        simp only [Bool.not_false, if_true] at hc
        have hne : (cnts == 1) = false := by
          simp only [beq_eq_false_iff_ne]; omega
        simp only [startFwd, hcb, Bool.not_false, if_true, hne, Bool.false_eq_true, if_false, hnext]
        exact ih (k + 1) (cnts - 1) fuel (by omega) (by omega) (by omega) (by omega)
      · rw [hck] at hcb hc
        simp only [Bool.not_true, Bool.false_eq_true, if_false, Nat.zero_add] at hc
        simp only [startFwd, hcb, Bool.not_true, Bool.false_eq_true, if_false, hnext]
        exact ih (k + 1) cnts fuel (by omega) (by omega) hc (by omega)

/-- `_get_start_index` of an occupied quotient is the position of its first element -/
theorem getStartIndex_lin (L : Lin s n e m d r) (f : Nat) (hf : f < m)
    (hfirst : ∀ k, k < f → d k ≠ d f) :
    s.getStartIndex (io n e (d f)) = .ok (io n e (posF d f)) := by
  have hn : 0 < n := by have := L.n2; omega
  obtain ⟨a, ha, hpa, hk⟩ := cluster d f
  have hc := contig d a f hk
  have hda : d a ≤ d f := d_mono L a f ha hf
  have hpf := hc f ha (Nat.le_refl _)
  have hdf := p_ge_d d f
  have hfit := L.fit f hf
  -- the slot at the home of `f` holds an element, so it is not empty
  obtain ⟨k0, hk0, hpk0⟩ := pos_of_home L f hf
  have hne : s.isEmpty (io n e (d f)) = false := by
    rw [← hpk0]; exact isEmpty_cell L k0 (by omega)
  simp only [getStartIndex, hne, Bool.false_eq_true, if_false]
  -- first loop
  have hsh_a : bit s.shift (io n e (posF d a)) = false := by
    rw [L.shift a (by omega)]; simp [hpa]
  have hback := startBack_walk (s := s) (e := e) L.size hn (io n e (d f)) (posF d a) hsh_a
    (d f - posF d a) (d f) 0 s.fuelOf (by omega)
    (by
      intro j' h1 h2
      have hkk := hc (a + (j' - posF d a)) (by omega) (by omega)
      have hj' : posF d (a + (j' - posF d a)) = j' := by omega
      have := L.shift (a + (j' - posF d a)) (by omega)
      rw [hj'] at this
      rw [this]
      have := hk (a + (j' - posF d a)) (by omega) (by omega)
      rw [hj'] at this
      simp [this])
    (by simp only [fuelOf, L.size]; omega)
  rw [hback]
  simp only [Nat.zero_add]
  -- the count is the number of run starts from `a` to `f`
  have hocc_f : bit s.occ (io n e (d f)) = true := (L.occ _ (by omega)).2 ⟨f, hf, rfl⟩
  have hcnt1 : cntP (fun j' => io n e j' == io n e (d f) || bit s.occ (io n e j')) (posF d a)
      (d f - posF d a + 1) = cntP (fun j => bit s.occ (io n e j)) (posF d a) (d f - posF d a + 1) := by
    apply cntP_congr
    intro j h1 h2
    by_cases hj : j = d f
    · subst hj; simp [hocc_f]
    · have : (io n e j == io n e (d f)) = false := by
        simp only [beq_eq_false_iff_ne]
        intro h; exact hj (io_inj n e j (d f) (by omega) (by omega) h)
      simp [this]
  have hnca : contF d a = false := by
    simp only [contF, Bool.and_eq_false_iff, decide_eq_false_iff_not]
    by_cases ha0 : a = 0
    · left; omega
    · right
      intro heq
      have h1 := p_ge_d d (a - 1)
      have h2 := p_lt d (a - 1) a (by omega)
      omega
  have hncf : contF d f = false := by
    simp only [contF, Bool.and_eq_false_iff, decide_eq_false_iff_not]
    by_cases hf0 : f = 0
    · left; omega
    · right; intro heq; exact hfirst (f - 1) (by omega) heq.symm
  have hcnt2 := count_runs L a hnca (f - a) (by omega)
  rw [show a + (f - a) = f by omega] at hcnt2
  rw [hcnt1, hpa, hcnt2, ← hpa]
  exact startFwd_walk L a f hf hc hncf (f - a) a _ s.fuelOf (by omega) (Nat.le_refl _) rfl
    (by simp only [fuelOf, L.size]; omega)

/-! ### `_contained_at_loc` -/

theorem exists_last (P : Nat → Prop) (m : Nat) : ∀ t i, m = i + t + 1 → P i →
    ∃ g, i ≤ g ∧ g < m ∧ P g ∧ ∀ k, g < k → k < m → ¬ P k := by
  intro t
  induction t with
  | zero => intro i hm h; exact ⟨i, Nat.le_refl _, by omega, h, fun k h1 h2 => by omega⟩
  | succ t ih =>
      intro i hm h
      by_cases hex : ∃ k, i < k ∧ k < m ∧ P k
      · obtain ⟨k, hk1, hk2, hpk⟩ := hex
        -- induct on the distance of `k` to the end
        have : ∀ u k, m = k + u + 1 → i < k → P k → ∃ g, i ≤ g ∧ g < m ∧ P g ∧ ∀ k, g < k → k < m → ¬ P k := by
          intro u
          induction u using Nat.strongRecOn with
          | _ u ihu =>
              intro k hmk hik hpk
              by_cases hex2 : ∃ k', k < k' ∧ k' < m ∧ P k'
              · obtain ⟨k', h1, h2, h3⟩ := hex2
                exact ihu (m - k' - 1) (by omega) k' (by omega) (by omega) h3
              · exact ⟨k, by omega, by omega, hpk, fun k' h1 h2 h3 => hex2 ⟨k', h1, h2, h3⟩⟩
        exact this (m - k - 1) k (by omega) hk1 hpk
      · exact ⟨i, Nat.le_refl _, by omega, h, fun k h1 h2 h3 => hex ⟨k, h1, h2, h3⟩⟩

/-- the look-up loop walks the run of elements `f … g` (all with the same home), which is sorted
    by remainder -/
theorem containedLoop_run (L : Lin s n e m d r) (f g : Nat) (hg : g < m)
    (hgrp : ∀ k, f ≤ k → k ≤ g → d k = d f) (hlast : g + 1 < m → d (g + 1) ≠ d f)
    (hncf : contF d f = false) (rr : Nat) :
    ∀ t k fuel, g = k + t → f ≤ k → t + 1 < fuel →
      ∃ o, containedLoop s rr fuel (io n e (posF d k)) (if k = f then 0 else 1) = .ok o ∧
        (o.isSome = true ↔ ∃ k', k ≤ k' ∧ k' ≤ g ∧ r k' = rr) := by
  have hrmono : ∀ k k', f ≤ k → k ≤ k' → k' ≤ g → r k ≤ r k' := by
    intro k k' h1 h2 h3
    induction k' with
    | zero => have : k = 0 := by omega
              subst this; exact Nat.le_refl _
    | succ k' ih =>
        by_cases hk : k = k' + 1
        · subst hk; exact Nat.le_refl _
        · have := ih (by omega) (by omega)
          have hso := L.sorted k' (by omega)
          have e1 := hgrp k' (by omega) (by omega)
          have e2 := hgrp (k' + 1) (by omega) (by omega)
          omega
  intro t
  induction t with
  | zero =>
      intro k fuel hk hfk hfu
      simp only [Nat.add_zero] at hk
      subst hk
      obtain ⟨fuel, rfl⟩ : ∃ f', fuel = f' + 2 := ⟨fuel - 2, by omega⟩
      have hce := isEmpty_cell L g hg
      have hcb := L.cont g hg
      rw [show (decide (g ≠ 0) && decide (d g = d (g - 1))) = contF d g from rfl] at hcb
      have hrem := L.rem g hg
      have hstarts : (if (!bit s.cont (io n e (posF d g))) = true then (if g = f then 0 else 1) + 1
          else (if g = f then 0 else 1)) = 1 := by
        rw [hcb]
        by_cases hgf : g = f
        · subst hgf; simp [hncf]
        · have : contF d g = true := by
            simp only [contF, Bool.and_eq_true, decide_eq_true_eq]
            refine ⟨by omega, ?_⟩
            rw [hgrp g (by omega) (Nat.le_refl _), hgrp (g - 1) (by omega) (by omega)]
          simp [this, hgf]
      simp only [containedLoop, hce, Bool.false_eq_true, if_false, hstarts, hrem]
      by_cases h1 : r g > rr
      · refine ⟨none, by simp [h1], ?_⟩
        simp only [Option.isSome_none, Bool.false_eq_true, false_iff, not_exists, not_and]
        intro k' h2 h3; have : k' = g := by omega
        subst this; omega
      · by_cases h2 : r g = rr
        · refine ⟨some (io n e (posF d g)), by simp [h2], ?_⟩
          simp only [Option.isSome_some, true_iff]
          exact ⟨g, Nat.le_refl _, Nat.le_refl _, h2⟩
        · have hnext := nxt_io s n e (posF d g) L.size
          have hgt : ¬ (r g > rr) := h1
          have hbeq : (r g == rr) = false := by simp [h2]
          simp only [show ((1 : Nat) == 2) = false from rfl, Bool.false_or, decide_eq_true_eq, hgt,
            if_false, hbeq, Bool.false_eq_true, hnext]
          refine ⟨none, ?_, ?_⟩
          · -- the slot behind the run: the start of the next run, or empty
            have hfit := L.fit g hg
            by_cases hcell : g + 1 < m ∧ posF d (g + 1) = posF d g + 1
            · obtain ⟨hm1, hp1⟩ := hcell
              rw [← hp1]
              have hce1 := isEmpty_cell L (g + 1) hm1
              have hcb1 := L.cont (g + 1) hm1
              have hne : d (g + 1) ≠ d g := by
                rw [hgrp g hfk (Nat.le_refl _)]; exact hlast hm1
              have : (decide (g + 1 ≠ 0) && decide (d (g + 1) = d (g + 1 - 1))) = false := by
                simp [hne]
              rw [this] at hcb1
              simp [hce1, hcb1]
            · have hno : ∀ i, i < m → posF d i ≠ posF d g + 1 := by
                intro i hi heq
                by_cases hig : i ≤ g
                · have := p_mono d i g hig; omega
                · have h3 := p_mono d (g + 1) i (by omega)
                  have h4 := p_step d g
                  have : i = g + 1 := by
                    by_cases hh : i = g + 1
                    · exact hh
                    · have := p_lt d (g + 1) i (by omega); omega
                  subst this
                  exact hcell ⟨hi, heq⟩
              have := isEmpty_nocell L (posF d g + 1) (by omega) hno
              simp [this]
          · simp only [Option.isSome_none, Bool.false_eq_true, false_iff, not_exists, not_and]
            intro k' h3 h4; have : k' = g := by omega
            subst this; exact h2
  | succ t ih =>
      intro k fuel hk hfk hfu
      obtain ⟨fuel, rfl⟩ : ∃ f', fuel = f' + 1 := ⟨fuel - 1, by omega⟩
      have hkm : k < m := by omega
      have hce := isEmpty_cell L k hkm
      have hcb := L.cont k hkm
      rw [show (decide (k ≠ 0) && decide (d k = d (k - 1))) = contF d k from rfl] at hcb
      have hrem := L.rem k hkm
      have hstarts : (if (!bit s.cont (io n e (posF d k))) = true then (if k = f then 0 else 1) + 1
          else (if k = f then 0 else 1)) = 1 := by
        rw [hcb]
        by_cases hgf : k = f
        · subst hgf; simp [hncf]
        · have : contF d k = true := by
            simp only [contF, Bool.and_eq_true, decide_eq_true_eq]
            refine ⟨by omega, ?_⟩
            rw [hgrp k (by omega) (by omega), hgrp (k - 1) (by omega) (by omega)]
          simp [this, hgf]
      simp only [containedLoop, hce, Bool.false_eq_true, if_false, hstarts, hrem]
      by_cases h1 : r k > rr
      · refine ⟨none, by simp [h1], ?_⟩
        simp only [Option.isSome_none, Bool.false_eq_true, false_iff, not_exists, not_and]
        intro k' h2 h3 h4
        have := hrmono k k' hfk h2 h3
        omega
      · by_cases h2 : r k = rr
        · refine ⟨some (io n e (posF d k)), by simp [h2], ?_⟩
          simp only [Option.isSome_some, true_iff]
          exact ⟨k, Nat.le_refl _, by omega, h2⟩
        · have hnext := nxt_io s n e (posF d k) L.size
          have hgt : ¬ (r k > rr) := h1
          have hbeq : (r k == rr) = false := by simp [h2]
          simp only [show ((1 : Nat) == 2) = false from rfl, Bool.false_or, decide_eq_true_eq, hgt,
            if_false, hbeq, Bool.false_eq_true, hnext]
          have hp1 : posF d (k + 1) = posF d k + 1 := by
            apply p_shifted
            have e1 := hgrp k hfk (by omega)
            have e2 := hgrp (k + 1) (by omega) (by omega)
            have := p_ge_d d k
            have := p_step d k
            omega
          rw [← hp1]
          obtain ⟨o, ho, hiff⟩ := ih (k + 1) fuel (by omega) (by omega) (by omega)
          rw [if_neg (by omega)] at ho
          refine ⟨o, ho, ?_⟩
          rw [hiff]
          constructor
          · rintro ⟨k', h3, h4, h5⟩; exact ⟨k', by omega, h4, h5⟩
          · rintro ⟨k', h3, h4, h5⟩
            refine ⟨k', ?_, h4, h5⟩
            by_cases hkk : k' = k
            · subst hkk; exact absurd h5 h2
            · omega

/-- **Layer A1 on the linear view**: the look-up terminates and finds exactly the stored elements -/
theorem containedAtLoc_lin (L : Lin s n e m d r) (x : Nat) (hx : x < n) (rr : Nat) :
    ∃ o, s.containedAtLoc (io n e x) rr = .ok o ∧
      (o.isSome = true ↔ ∃ i, i < m ∧ d i = x ∧ r i = rr) := by
  simp only [containedAtLoc]
  cases ho : bit s.occ (io n e x)
  · refine ⟨none, by simp, ?_⟩
    simp only [Option.isSome_none, Bool.false_eq_true, false_iff, not_exists, not_and]
    intro i hi hdi
    have := (L.occ x hx).2 ⟨i, hi, hdi⟩
    rw [ho] at this; cases this
  · obtain ⟨i, hi, hdi⟩ := (L.occ x hx).1 ho
    obtain ⟨f, hfi, hdf, hfmin⟩ := exists_first (fun k => d k = x) i hdi
    obtain ⟨g, hig, hgm, hdg, hgmax⟩ := exists_last (fun k => d k = x) m (m - i - 1) i (by omega) hdi
    have hfm : f < m := by omega
    have hgrp : ∀ k, f ≤ k → k ≤ g → d k = d f := by
      intro k h1 h2
      have := d_mono L f k h1 (by omega)
      have := d_mono L k g h2 hgm
      omega
    have hstart := getStartIndex_lin L f hfm (by intro k hk; rw [hdf]; exact hfmin k hk)
    rw [hdf] at hstart
    have hncf : contF d f = false := by
      simp only [contF, Bool.and_eq_false_iff, decide_eq_false_iff_not]
      by_cases hf0 : f = 0
      · left; omega
      · right; intro heq; exact hfmin (f - 1) (by omega) (by rw [← heq]; exact hdf)
    have hlen : g - f ≤ n := by
      have := p_mono d f g (by omega)
      have := L.fit g hgm
      omega
    obtain ⟨o, ho', hiff⟩ := containedLoop_run L f g hgm hgrp
      (by intro h1; rw [hdf]; exact hgmax (g + 1) (by omega) h1) hncf rr (g - f) f s.fuelOf (by omega)
      (Nat.le_refl _) (by simp only [fuelOf, L.size]; omega)
    simp only [if_true] at ho'
    simp only [Bool.not_true, Bool.false_eq_true, if_false, hstart, ho']
    refine ⟨o, rfl, ?_⟩
    rw [hiff]
    constructor
    · rintro ⟨k', h1, h2, h3⟩
      exact ⟨k', by omega, by rw [hgrp k' h1 h2]; exact hdf, h3⟩
    · rintro ⟨k', h1, h2, h3⟩
      refine ⟨k', ?_, ?_, h3⟩
      · by_cases hh : f ≤ k'
        · exact hh
        · exact absurd h2 (hfmin k' (by omega))
      · by_cases hh : k' ≤ g
        · exact hh
        · exact absurd h2 (hgmax k' (by omega) h1)

end lin2
end PyProb.QFLin
