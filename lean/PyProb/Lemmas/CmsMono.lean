/-
  Count-min sketch (`.min` query) under additions: `add_alt` never fails on a well-formed sketch,
  returns the minimum of the key's bins after the add, bins only grow, hence the estimates
  returned for one hash list never decrease over time (saturation at int32 max included).
  Core Lean only.
-/
import PyProb.Model.CMS

namespace PyProb
namespace CMS

/-- the saturation applied by `add_alt` to each new bin value -/
def clamp (v : Int) : Int := if v > Gen.int32Max then Gen.int32Max else v

theorem clamp_le (v : Int) : clamp v ≤ Gen.int32Max := by
  unfold clamp; split <;> omega

theorem le_clamp {a v : Int} (h1 : a ≤ v) (h2 : a ≤ Gen.int32Max) : a ≤ clamp v := by
  unfold clamp; split <;> omega

/-- reachable `.min`-mode sketches under additions: geometry and every bin in `0..int32Max` -/
structure WF (c : CMS) : Prop where
  mode : c.mode = .min
  wpos : 0 < c.w
  dpos : 0 < c.d
  len : c.bins.length = c.w * c.d
  range : ∀ x ∈ c.bins, 0 ≤ x ∧ x ≤ Gen.int32Max

theorem WF.new (w d : Nat) (hw : 0 < w) (hd : 0 < d) : WF (CMS.new w d .min) where
  mode := rfl
  wpos := hw
  dpos := hd
  len := by simp [CMS.new]
  range := by
    intro x hx
    simp only [CMS.new, List.mem_replicate] at hx
    rw [hx.2]; simp [Gen.int32Max]

theorem WF.getD_range {c : CMS} (hw : WF c) (j : Nat) :
    0 ≤ c.bins.getD j 0 ∧ c.bins.getD j 0 ≤ Gen.int32Max := by
  rw [List.getD_eq_getElem?_getD]
  by_cases h : j < c.bins.length
  · rw [List.getElem?_eq_getElem h]; exact hw.range _ (List.getElem_mem h)
  · rw [List.getElem?_eq_none (by omega)]; simp [Gen.int32Max]

/-! ### bin indices -/

theorem binIdx_length (c : CMS) (hs : List Nat) : (c.binIdx hs).length = hs.length := by
  simp [binIdx]

theorem mem_binIdx {c : CMS} {hs : List Nat} {idx : Nat} (h : idx ∈ c.binIdx hs) :
    ∃ i v, i < hs.length ∧ idx = v % c.w + i * c.w := by
  obtain ⟨i, hi, e⟩ := List.mem_iff_getElem.mp h
  simp only [binIdx, List.getElem_zipWith, List.getElem_range] at e
  simp only [binIdx_length] at hi
  exact ⟨i, hs[i], hi, e.symm⟩

theorem binIdx_lt {c : CMS} (hw : 0 < c.w) {hs : List Nat} {idx : Nat} (h : idx ∈ c.binIdx hs) :
    idx < c.w * hs.length := by
  obtain ⟨i, v, hi, rfl⟩ := mem_binIdx h
  have h1 : v % c.w < c.w := Nat.mod_lt _ hw
  have h2 : (i + 1) * c.w ≤ hs.length * c.w := Nat.mul_le_mul_right _ hi
  rw [Nat.succ_mul] at h2
  rw [Nat.mul_comm c.w]; omega

theorem binIdx_congr (c c' : CMS) (h : c'.w = c.w) (hs : List Nat) : c'.binIdx hs = c.binIdx hs := by
  simp [binIdx, h]

theorem binIdx_ne_nil (c : CMS) {hs : List Nat} (h : 0 < hs.length) : c.binIdx hs ≠ [] := by
  intro e
  have := binIdx_length c hs
  rw [e] at this; simp at this; omega

/-! ### the sorted head is the minimum -/

theorem sortInts_head (l : List Int) (hne : l ≠ []) :
    ∃ x rest, sortInts l = x :: rest ∧ x ∈ l ∧ ∀ y ∈ l, x ≤ y := by
  have hp : (sortInts l).Pairwise (fun a b => decide (a ≤ b) = true) :=
    List.pairwise_mergeSort (le := fun a b => decide (a ≤ b))
      (by intro a b c h1 h2; simp only [decide_eq_true_eq] at *; omega)
      (by intro a b; simp only [Bool.or_eq_true, decide_eq_true_eq]; omega) l
  cases h : sortInts l with
  | nil =>
      have : (sortInts l).length = l.length := List.length_mergeSort l
      rw [h] at this
      exact absurd (List.length_eq_zero_iff.mp this.symm) hne
  | cons x rest =>
      refine ⟨x, rest, rfl, ?_, ?_⟩
      · have : x ∈ sortInts l := by rw [h]; simp
        exact List.mem_mergeSort.mp this
      · intro y hy
        have hy' : y ∈ sortInts l := List.mem_mergeSort.mpr hy
        rw [h] at hy' hp
        rcases List.mem_cons.mp hy' with rfl | hy'
        · omega
        · have := (List.pairwise_cons.mp hp).1 y hy'
          simpa using this

/-- evaluation of the sort on two values (for concrete examples; `mergeSort` does not reduce
    by `decide`) -/
theorem sortInts_pair (a b : Int) : sortInts [a, b] = if a ≤ b then [a, b] else [b, a] := by
  simp [sortInts, List.mergeSort, List.MergeSort.Internal.splitInTwo, List.merge]

/-! ### the store loop -/

theorem addLoop_eq (l : List (Nat × Int)) (bins acc : List Int)
    (hv : ∀ p ∈ l, Gen.int32Min ≤ p.2) :
    addLoop bins l acc =
      (l.foldl (fun b p => b.set p.1 (clamp p.2)) bins, acc.reverse ++ l.map (fun p => clamp p.2), none) := by
  induction l generalizing bins acc with
  | nil => simp [addLoop]
  | cons p l ih =>
      obtain ⟨idx, v⟩ := p
      have hv' : ∀ p ∈ l, Gen.int32Min ≤ p.2 := fun p hp => hv p (List.mem_cons_of_mem _ hp)
      have hv0 : Gen.int32Min ≤ v := hv (idx, v) (by simp)
      by_cases h : v > Gen.int32Max
      · have e : Gen.cmsAddClampCmp.evalInt v Gen.int32Max = true := by
          simp [Gen.cmsAddClampCmp, Cmp.evalInt, h]
        simp only [addLoop, e, if_true, ih _ _ hv', List.foldl_cons, List.map_cons, clamp, h,
          List.reverse_cons, List.append_assoc, List.singleton_append]
      · have e : Gen.cmsAddClampCmp.evalInt v Gen.int32Max = false := by
          simp [Gen.cmsAddClampCmp, Cmp.evalInt, h]
        have h2 : ¬ v < (-2147483648 : Int) := by
          have := hv0; simp only [Gen.int32Min] at this; omega
        simp only [addLoop, e, Bool.false_eq_true, if_false, h2, ih _ _ hv', List.foldl_cons,
          List.map_cons, clamp, h, List.reverse_cons, List.append_assoc, List.singleton_append]

theorem foldl_set_length (l : List (Nat × Int)) (g : Int → Int) (bins : List Int) :
    (l.foldl (fun b p => b.set p.1 (g p.2)) bins).length = bins.length := by
  induction l generalizing bins with
  | nil => rfl
  | cons p l ih => simp [ih]

/-- writes of `f idx` at in-range indices: the final content (repeated indices are harmless
    because the value written depends on the index only) -/
theorem foldl_set_getD (l : List (Nat × Int)) (g : Int → Int) (f : Nat → Int) (bins : List Int)
    (hf : ∀ p ∈ l, g p.2 = f p.1) (hb : ∀ p ∈ l, p.1 < bins.length) (j : Nat) :
    (l.foldl (fun b p => b.set p.1 (g p.2)) bins).getD j 0 =
      if j ∈ l.map (·.1) then f j else bins.getD j 0 := by
  induction l generalizing bins with
  | nil => simp
  | cons p l ih =>
      have hf' : ∀ q ∈ l, g q.2 = f q.1 := fun q hq => hf q (List.mem_cons_of_mem _ hq)
      have hb' : ∀ q ∈ l, q.1 < (bins.set p.1 (g p.2)).length := by
        intro q hq; rw [List.length_set]; exact hb q (List.mem_cons_of_mem _ hq)
      have hp : p.1 < bins.length := hb p (by simp)
      rw [List.foldl_cons, ih _ hf' hb']
      by_cases hj : j ∈ l.map (·.1)
      · simp [hj]
      · by_cases e : j = p.1
        · subst e
          simp [hj, List.getD_eq_getElem?_getD, hp, hf p (by simp)]
        · have e' : ¬ p.1 = j := fun x => e x.symm
          simp [hj, e, List.getD_eq_getElem?_getD, e']

theorem zip_map_self_mm {α β} (l : List α) (g : α → β) : l.zip (l.map g) = l.map fun x => (x, g x) := by
  induction l with
  | nil => rfl
  | cons a l ih => simp [ih]

/-! ### `add_alt` -/

/-- `v` is a lower bound on every bin of the hash list `hs` (so on its `.min` estimate) -/
def LB (c : CMS) (hs : List Nat) (v : Int) : Prop := ∀ idx ∈ c.binIdx hs, v ≤ c.bins.getD idx 0

/-- what one successful `add_alt(hs, n)` on a well-formed sketch does -/
structure AddSpec (c : CMS) (hs : List Nat) (n : Int) (c' : CMS) (res : Int) : Prop where
  wf : WF c'
  w : c'.w = c.w
  d : c'.d = c.d
  len : c'.bins.length = c.bins.length
  /-- the key's bins get `min(old + n, int32Max)`, all others are untouched -/
  bins : ∀ j, c'.bins.getD j 0 =
    if j ∈ c.binIdx hs then clamp (c.bins.getD j 0 + n) else c.bins.getD j 0
  /-- bins never decrease -/
  mono : ∀ j, c.bins.getD j 0 ≤ c'.bins.getD j 0
  /-- the returned estimate is the minimum of the key's bins after the add -/
  res_le : LB c' hs res
  res_mem : ∃ idx ∈ c.binIdx hs, res = c'.bins.getD idx 0
  res_pos : 1 ≤ n → 1 ≤ res
  res_nonneg : 0 ≤ res

theorem addAlt_spec (c : CMS) (hw : WF c) (hs : List Nat) (hl : hs.length = c.d) (n : Int)
    (hn : 0 ≤ n) : ∃ c' res, c.addAlt hs n = (c', .ok res) ∧ AddSpec c hs n c' res := by
  -- no index error
  have hlt : ∀ idx ∈ c.binIdx hs, idx < c.bins.length := by
    intro idx h; rw [hw.len, ← hl]; exact binIdx_lt hw.wpos h
  have hany : (c.binIdx hs).any (· ≥ c.bins.length) = false := by
    rw [List.any_eq_false]
    intro idx h; have := hlt idx h; simp; omega
  -- the store loop
  let old : Nat → Int := fun x => c.bins.getD x 0
  let f : Nat → Int := fun x => clamp (old x + n)
  have hzip : (c.binIdx hs).zip ((c.binIdx hs).map fun x => c.bins.getD x 0 + n) =
      (c.binIdx hs).map fun x => (x, old x + n) := zip_map_self_mm _ _
  have hmin : ∀ p ∈ (c.binIdx hs).map (fun x => (x, old x + n)), Gen.int32Min ≤ p.2 := by
    intro p hp
    obtain ⟨x, _, rfl⟩ := List.mem_map.mp hp
    have := (hw.getD_range x).1
    show Gen.int32Min ≤ c.bins.getD x 0 + n
    simp only [Gen.int32Min]; omega
  have hloop := addLoop_eq _ c.bins [] hmin
  have hvals : ((c.binIdx hs).map fun x => (x, old x + n)).map (fun p => clamp p.2) =
      (c.binIdx hs).map f := by simp [List.map_map, f, Function.comp_def]
  have hfst : ((c.binIdx hs).map fun x => (x, old x + n)).map (·.1) = c.binIdx hs := by
    simp [List.map_map, Function.comp_def]
  have hne : (c.binIdx hs).map f ≠ [] := by
    have := binIdx_ne_nil c (hs := hs) (by have := hw.dpos; omega)
    simpa using this
  obtain ⟨x, rest, hsort, hxmem, hxle⟩ := sortInts_head _ hne
  -- final bins
  let bins' := ((c.binIdx hs).map fun x => (x, old x + n)).foldl
      (fun b p => b.set p.1 (clamp p.2)) c.bins
  have hlen' : bins'.length = c.bins.length := foldl_set_length _ clamp _
  have hget : ∀ j, bins'.getD j 0 = if j ∈ c.binIdx hs then f j else c.bins.getD j 0 := by
    intro j
    have := foldl_set_getD ((c.binIdx hs).map fun x => (x, old x + n)) clamp f c.bins
      (by intro p hp; obtain ⟨x, _, rfl⟩ := List.mem_map.mp hp; rfl)
      (by intro p hp; obtain ⟨x, hx, rfl⟩ := List.mem_map.mp hp; exact hlt x hx) j
    rw [hfst] at this
    exact this
  let t' : Int := if Gen.cmsTotalMaxCmp.evalInt (c.total + n) Gen.int64Max then Gen.int64Max
    else c.total + n
  refine ⟨{ c with bins := bins', total := t' }, x, ?_, ?_⟩
  · unfold addAlt
    simp only [hany, Bool.false_eq_true, if_false, hzip, hloop, hvals, List.reverse_nil,
      List.nil_append, query, hw.mode, hsort]
    rfl
  · have hmono : ∀ j, c.bins.getD j 0 ≤ bins'.getD j 0 := by
      intro j
      rw [hget]
      split
      · have := hw.getD_range j
        exact le_clamp (by show c.bins.getD j 0 ≤ c.bins.getD j 0 + n; omega) this.2
      · omega
    exact {
      wf := {
        mode := hw.mode
        wpos := hw.wpos
        dpos := hw.dpos
        len := by show bins'.length = _; rw [hlen']; exact hw.len
        range := by
          intro y hy
          have hy' : y ∈ bins' := hy
          obtain ⟨j, hj, rfl⟩ := List.mem_iff_getElem.mp hy'
          have e : bins'[j] = bins'.getD j 0 := by
            rw [List.getD_eq_getElem?_getD, List.getElem?_eq_getElem hj]; rfl
          rw [e]
          refine ⟨by have := hmono j; have := (hw.getD_range j).1; omega, ?_⟩
          rw [hget]
          split
          · exact clamp_le _
          · exact (hw.getD_range j).2 }
      w := rfl
      d := rfl
      len := hlen'
      bins := hget
      mono := hmono
      res_le := by
        intro idx hidx
        show x ≤ bins'.getD idx 0
        have hidx' : idx ∈ c.binIdx hs := hidx
        rw [hget, if_pos hidx']
        exact hxle _ (List.mem_map.mpr ⟨idx, hidx', rfl⟩)
      res_mem := by
        obtain ⟨idx, hidx, e⟩ := List.mem_map.mp hxmem
        refine ⟨idx, hidx, ?_⟩
        show x = bins'.getD idx 0
        rw [hget, if_pos hidx, e]
      res_pos := by
        intro hn1
        obtain ⟨idx, hidx, e⟩ := List.mem_map.mp hxmem
        rw [← e]
        have := (hw.getD_range idx).1
        exact le_clamp (by show 1 ≤ c.bins.getD idx 0 + n; omega) (by simp [Gen.int32Max])
      res_nonneg := by
        obtain ⟨idx, hidx, e⟩ := List.mem_map.mp hxmem
        rw [← e]
        have := (hw.getD_range idx).1
        exact le_clamp (by show 0 ≤ c.bins.getD idx 0 + n; omega) (by simp [Gen.int32Max]) }

/-- a lower bound on a hash list's bins survives any addition -/
theorem AddSpec.lb_preserved {c c' : CMS} {hs : List Nat} {n res : Int} (h : AddSpec c hs n c' res)
    {hs' : List Nat} {v : Int} (hv : LB c hs' v) : LB c' hs' v := by
  intro idx hidx
  rw [binIdx_congr c c' h.w] at hidx
  have := hv idx hidx
  have := h.mono idx
  omega

/-- the estimate returned by an add is at least every earlier lower bound for the same hash list:
    with `res_le` and `lb_preserved`, estimates of one key never decrease over time -/
theorem AddSpec.lb_le_res {c c' : CMS} {hs : List Nat} {n res : Int} (h : AddSpec c hs n c' res)
    {v : Int} (hv : LB c hs v) : v ≤ res := by
  obtain ⟨idx, hidx, e⟩ := h.res_mem
  have := hv idx hidx
  have := h.mono idx
  omega

/-! ### histories of additions -/

/-- the sketch after a history of `add_alt(hs, n)` calls -/
def addsRun (c : CMS) (ops : List (List Nat × Int)) : CMS :=
  ops.foldl (fun c o => (c.addAlt o.1 o.2).1) c

theorem addsRun_inv (c : CMS) (hw : WF c) (ops : List (List Nat × Int))
    (hops : ∀ o ∈ ops, o.1.length = c.d ∧ 0 ≤ o.2) :
    WF (addsRun c ops) ∧ (addsRun c ops).w = c.w ∧ (addsRun c ops).d = c.d ∧
      ∀ hs v, LB c hs v → LB (addsRun c ops) hs v := by
  induction ops generalizing c with
  | nil => exact ⟨hw, rfl, rfl, fun _ _ h => h⟩
  | cons o ops ih =>
      obtain ⟨h1, h2⟩ := hops o (by simp)
      obtain ⟨c', res, e, sp⟩ := addAlt_spec c hw o.1 h1 o.2 h2
      have hops' : ∀ o ∈ ops, o.1.length = c'.d ∧ 0 ≤ o.2 := by
        intro o' ho'; rw [sp.d]; exact hops o' (List.mem_cons_of_mem _ ho')
      obtain ⟨a, b, c3, d⟩ := ih c' sp.wf hops'
      have e' : addsRun c (o :: ops) = addsRun c' ops := by simp [addsRun, e]
      rw [e']
      exact ⟨a, by rw [b, sp.w], by rw [c3, sp.d], fun hs v h => d hs v (sp.lb_preserved h)⟩

/-- estimates of one hash list are non-decreasing over time: an add of `hs`, then any history of
    additions, then another add of `hs` — the second returns at least what the first returned
    (both succeed); no no-saturation hypothesis is needed -/
theorem addAlt_estimates_mono (c : CMS) (hw : WF c) (hs : List Nat) (hl : hs.length = c.d)
    (n1 n2 : Int) (h1 : 0 ≤ n1) (h2 : 0 ≤ n2) (ops : List (List Nat × Int))
    (hops : ∀ o ∈ ops, o.1.length = c.d ∧ 0 ≤ o.2) :
    ∃ c1 r1 c3 r2, c.addAlt hs n1 = (c1, .ok r1) ∧
      (addsRun c1 ops).addAlt hs n2 = (c3, .ok r2) ∧ r1 ≤ r2 := by
  obtain ⟨c1, r1, e1, sp1⟩ := addAlt_spec c hw hs hl n1 h1
  have hops' : ∀ o ∈ ops, o.1.length = c1.d ∧ 0 ≤ o.2 := by
    intro o ho; rw [sp1.d]; exact hops o ho
  obtain ⟨wf2, _, d2, lb2⟩ := addsRun_inv c1 sp1.wf ops hops'
  obtain ⟨c3, r2, e3, sp3⟩ := addAlt_spec (addsRun c1 ops) wf2 hs (by rw [d2, sp1.d]; exact hl) n2 h2
  exact ⟨c1, r1, c3, r2, e1, e3, sp3.lb_le_res (lb2 hs r1 sp1.res_le)⟩

end CMS
end PyProb
