/-
  Helper lemmas for the on-disk Bloom filter (C11): the file as `bits ++ footer`, micro-steps on it.
-/
import PyProb.Lemmas.Bits
import PyProb.Model.OnDisk

namespace PyProb

/-- the documented file: bit array, then est (u64), count (u64), rate (f32 pattern) -/
def fileOf (bits : Bytes) (est : Nat) (cnt : Int) (fpr : Nat) : Bytes :=
  bits ++ (leBytes 8 est ++ (leBytesInt 8 cnt ++ leBytes 4 fpr))

theorem leBytes_length (n v : Nat) : (leBytes n v).length = n := by
  induction n generalizing v with
  | zero => rfl
  | succ n ih => simp [leBytes, ih]

theorem leBytesInt_length (n : Nat) (v : Int) : (leBytesInt n v).length = n := by
  simp [leBytesInt, leBytes_length]

theorem fileOf_length (bits : Bytes) (est : Nat) (cnt : Int) (fpr : Nat) :
    (fileOf bits est cnt fpr).length = bits.length + 20 := by
  simp [fileOf, leBytes_length, leBytesInt_length]

theorem updateOffset_size : Gen.onDiskUpdateOffset.size = 12 := by decide
theorem bloomFooter_size : Gen.bloomFooter.size = 20 := by decide

/-- rewriting the count of a well-shaped file -/
theorem patch_count (bits : Bytes) (est : Nat) (c c' : Int) (fpr : Nat) :
    patch (fileOf bits est c fpr) (bits.length + 8) (leBytesInt 8 c') = fileOf bits est c' fpr := by
  unfold patch fileOf
  have h8 : (leBytes 8 est).length = 8 := leBytes_length 8 est
  have hc : (leBytesInt 8 c).length = 8 := leBytesInt_length 8 c
  have hc' : (leBytesInt 8 c').length = 8 := leBytesInt_length 8 c'
  rw [← List.append_assoc bits, List.take_append_of_le_length (by simp [h8])]
  rw [List.take_of_length_le (by simp [h8])]
  rw [hc']
  have : bits.length + 8 + 8 = (bits ++ leBytes 8 est ++ leBytesInt 8 c).length := by simp [h8, hc]
  rw [← List.append_assoc (bits ++ leBytes 8 est), this, List.drop_left]
  simp [List.append_assoc]

/-- a byte store inside the bit array of a well-shaped file -/
theorem set_fileOf (bits : Bytes) (est : Nat) (c : Int) (fpr : Nat) (i v : Nat) (h : i < bits.length) :
    (fileOf bits est c fpr).set i v = fileOf (bits.set i v) est c fpr := by
  unfold fileOf
  rw [List.set_append_left _ _ h]

theorem getD_fileOf (bits : Bytes) (est : Nat) (c : Int) (fpr : Nat) (i : Nat) (h : i < bits.length) :
    (fileOf bits est c fpr).getD i 0 = bits.getD i 0 := by
  unfold fileOf
  simp [List.getD_eq_getElem?_getD, List.getElem?_append_left h]

theorem take_fileOf (bits : Bytes) (est : Nat) (c : Int) (fpr : Nat) :
    (fileOf bits est c fpr).take bits.length = bits := by
  unfold fileOf; simp

/-- the byte stores of an add, seen on the bit array alone -/
def setAll (m : Nat) (bits : Bytes) (hs : List Nat) : Bytes := hs.foldl (fun b h => setBitB b (h % m)) bits

theorem setAll_length (m : Nat) (bits : Bytes) (hs : List Nat) : (setAll m bits hs).length = bits.length := by
  induction hs generalizing bits with
  | nil => rfl
  | cons h hs ih => simp [setAll, List.foldl_cons] at *; rw [ih]; exact setBitB_length _ _

/-- a bit that is set stays set under any further stores -/
theorem setAll_mono (m : Nat) (bits : Bytes) (hs : List Nat) (hm : 0 < m) (hl : bits.length = (m + 7) / 8)
    (j : Nat) (hj : testBitB bits j = true) : testBitB (setAll m bits hs) j = true := by
  induction hs generalizing bits with
  | nil => exact hj
  | cons h hs ih =>
      simp only [setAll, List.foldl_cons]
      apply ih
      · rw [setBitB_length]; exact hl
      · rw [testBitB_setBitB _ _ _ (by rw [hl]; exact index_in_range (Nat.mod_lt _ hm))]; simp [hj]

/-- every stored position is set afterwards -/
theorem setAll_sets (m : Nat) (bits : Bytes) (hs : List Nat) (hm : 0 < m) (hl : bits.length = (m + 7) / 8)
    (h : Nat) (hh : h ∈ hs) : testBitB (setAll m bits hs) (h % m) = true := by
  induction hs generalizing bits with
  | nil => cases hh
  | cons x xs ih =>
      simp only [setAll, List.foldl_cons]
      have hb : (x % m) / 8 < bits.length := by rw [hl]; exact index_in_range (Nat.mod_lt _ hm)
      rcases List.mem_cons.mp hh with rfl | hx
      · exact setAll_mono m _ xs hm (by rw [setBitB_length]; exact hl) _
          (by rw [testBitB_setBitB _ _ _ hb]; simp)
      · exact ih _ (by rw [setBitB_length]; exact hl) hx

theorem ofLE_leBytes (n v : Nat) : ofLE (leBytes n v) = v % 256 ^ n := by
  induction n generalizing v with
  | zero => simp [leBytes, ofLE, Nat.mod_one]
  | succ n ih =>
      simp only [leBytes, ofLE, ih, Nat.pow_succ]
      rw [Nat.mul_comm (256 ^ n) 256]
      rw [Nat.mod_mul, Nat.add_comm]

theorem prefixes_append_one (file : Bytes) (xs : List MicroStep) (s : MicroStep) :
    OnDisk.prefixes file (xs ++ [s]) = OnDisk.prefixes file xs ++ [s.apply (OnDisk.applyAll file xs)] := by
  induction xs generalizing file with
  | nil => simp [OnDisk.prefixes, OnDisk.applyAll]
  | cons x xs ih => simp [OnDisk.prefixes, OnDisk.applyAll, ih] at *

theorem applyAll_append_one (file : Bytes) (xs : List MicroStep) (s : MicroStep) :
    OnDisk.applyAll file (xs ++ [s]) = s.apply (OnDisk.applyAll file xs) := by
  simp [OnDisk.applyAll, List.foldl_append]

/-- all the first `k` positions set ⇒ the membership loop answers true -/
theorem checkGo_true (m : Nat) (bits : Bytes) (k : Nat) (hs : List Nat) (hl : k ≤ hs.length)
    (h : ∀ x ∈ hs.take k, testBitB bits (x % m) = true) : Bloom.checkGo m bits k hs = .ok true := by
  induction k generalizing hs with
  | zero => rfl
  | succ k ih =>
      cases hs with
      | nil => simp at hl
      | cons x xs =>
          have hx := h x (by simp)
          simp only [Bloom.checkGo, hx, if_true]
          exact ih xs (by simpa using hl) (fun y hy => h y (by simp [hy]))

end PyProb
