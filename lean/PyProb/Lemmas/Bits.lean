/-
  Lemmas on bit addressing in byte lists (shared by Bitarray and the Bloom family).
-/
import PyProb.Model.Bitarray

namespace PyProb

theorem and_one_shiftLeft_ne_zero (x i : Nat) : ((x &&& (1 <<< i)) != 0) = x.testBit i := by
  rw [Nat.one_shiftLeft]
  cases h : x.testBit i
  · have : x &&& 2 ^ i = 0 := by
      apply Nat.eq_of_testBit_eq
      intro j
      simp only [Nat.testBit_and, Nat.testBit_two_pow, Nat.zero_testBit]
      by_cases hj : i = j
      · subst hj; simp [h]
      · simp [hj]
    simp [this]
  · have : (x &&& 2 ^ i).testBit i = true := by simp [h]
    have hne : x &&& 2 ^ i ≠ 0 := by
      intro h0; rw [h0] at this; simp at this
    simpa using hne

theorem testBitB_eq (bs : Bytes) (k : Nat) : testBitB bs k = (bs.getD (k / 8) 0).testBit (k % 8) := by
  unfold testBitB; exact and_one_shiftLeft_ne_zero _ _

theorem setBitB_length (bs : Bytes) (k : Nat) : (setBitB bs k).length = bs.length := by
  simp [setBitB]

theorem clearBitB_length (bs : Bytes) (k : Nat) : (clearBitB bs k).length = bs.length := by
  simp [clearBitB]

theorem split_index_ne {j k : Nat} (h : j ≠ k) : j / 8 ≠ k / 8 ∨ j % 8 ≠ k % 8 := by omega

theorem byte_or_testBit (x i j : Nat) : (x ||| 1 <<< i).testBit j = (decide (i = j) || x.testBit j) := by
  rw [Nat.one_shiftLeft, Nat.testBit_or, Nat.testBit_two_pow, Bool.or_comm]

theorem byte_clear_testBit (x i j : Nat) (hj : j < 8) :
    (x &&& (255 ^^^ 1 <<< i)).testBit j = (!decide (i = j) && x.testBit j) := by
  have h255 : (255 : Nat).testBit j = true := by
    rw [show (255 : Nat) = 2 ^ 8 - 1 by rfl, Nat.testBit_two_pow_sub_one]; simpa using hj
  rw [Nat.one_shiftLeft, Nat.testBit_and, Nat.testBit_xor, Nat.testBit_two_pow, h255, Bool.and_comm]
  cases decide (i = j) <;> simp

theorem getD_set_same (bs : Bytes) (i v : Nat) (h : i < bs.length) : (bs.set i v).getD i 0 = v := by
  simp [List.getD_eq_getElem?_getD, h]

theorem getD_set_ne (bs : Bytes) (i j v : Nat) (h : i ≠ j) : (bs.set i v).getD j 0 = bs.getD j 0 := by
  simp [List.getD_eq_getElem?_getD, h]

/-- the central lemma of bit addressing: setting bit `k` changes bit `k` only -/
theorem testBitB_setBitB (bs : Bytes) (k j : Nat) (hk : k / 8 < bs.length) :
    testBitB (setBitB bs k) j = (decide (j = k) || testBitB bs j) := by
  simp only [testBitB_eq, setBitB]
  by_cases hb : k / 8 = j / 8
  · rw [← hb, getD_set_same _ _ _ hk, byte_or_testBit]
    by_cases hm : k % 8 = j % 8
    · have : j = k := by omega
      simp [hm, this]
    · have : j ≠ k := by omega
      simp [hm, this]
  · rw [getD_set_ne _ _ _ _ hb]
    have : j ≠ k := by intro e; subst e; exact hb rfl
    simp [this]

theorem testBitB_clearBitB (bs : Bytes) (k j : Nat) (hk : k / 8 < bs.length) :
    testBitB (clearBitB bs k) j = (!decide (j = k) && testBitB bs j) := by
  simp only [testBitB_eq, clearBitB]
  by_cases hb : k / 8 = j / 8
  · rw [← hb, getD_set_same _ _ _ hk, byte_clear_testBit _ _ _ (Nat.mod_lt j (by decide))]
    by_cases hm : k % 8 = j % 8
    · have : j = k := by omega
      simp [hm, this]
    · have : j ≠ k := by omega
      simp [hm, this]
  · rw [getD_set_ne _ _ _ _ hb]
    have : j ≠ k := by intro e; subst e; exact hb rfl
    simp [this]

theorem testBitB_replicate_zero (n k : Nat) : testBitB (List.replicate n 0) k = false := by
  simp only [testBitB_eq, List.getD_eq_getElem?_getD, List.getElem?_replicate]
  split <;> simp

/-- the byte index of an in-range bit is inside the byte array — the `ceil(m/8)` off-by-one lemma -/
theorem index_in_range {k m : Nat} (h : k < m) : k / 8 < (m + 7) / 8 := by omega

end PyProb
