/-
  Cross-property corollary 1 (quotient filter): the C14 counter clause "elements_added = number of
  stored hashes" over WHOLE histories (C14 only has the per-step facts `C14_qf_add`,
  `C14_qf_remove`), obtained from `C04_exact_set`.
-/
import PyProb.Properties.C04

namespace PyProb.Corollaries
open PyProb PyProb.QF

/-- **`elements_added` is the number of stored hashes, over every history.**  For every quotient
    size, auto-resize on or off, any model budget `b`, and every history of
    `add | remove | resize | merge` calls on 32-bit hashes from `QuotientFilter(q, auto)` in which
    no call raised: `get_hashes` returns a duplicate-free list `l` that is a permutation of the
    specification set `(absRun …).H` (hashes added and not removed since), `elements_added` is the
    length of that list and of the specification set, and `load_factor = elements_added / size` has
    numerator `|l|` and denominator `2^q'` with `q'` the quotient size of the history
    (`3 ≤ q' ≤ 31`, so the denominator is not 0, and the numerator is strictly below it). -/
theorem qf_count_history (q : Int) (auto : Bool) (b : Nat) (ops : List C04.Op)
    (hops : ∀ op ∈ ops, op.InRange) (s0 s : QF) (hnew : QF.new q auto = .ok s0)
    (hrun : C04.run b s0 ops = .ok s) :
    let a := C04.absRun auto ⟨q.toNat, []⟩ ops
    ∃ l, getHashes s = .ok l ∧ (s.count : Int) = (l.length : Nat) ∧ l.Nodup ∧ l.Perm a.H ∧
      s.count = (a.H.length : Nat) ∧ s.size = 2 ^ a.q ∧ s.q = a.q ∧ 3 ≤ a.q ∧ a.q ≤ 31 ∧
      l.length < s.size := by
  intro a
  obtain ⟨heq, _, ⟨l, hl, hp, hnd⟩, hc, hsz, _, h3, h31, hroom⟩ :=
    C04.C04_exact_set q auto b ops hops s0 s hnew hrun
  refine ⟨l, hl, ?_, hnd, hp, hc, hsz, ?_, h3, h31, ?_⟩
  · rw [hc, hp.length_eq]
  · rw [heq]; rfl
  · rw [hsz, hp.length_eq]; exact hroom

/-- the C14 clause alone -/
theorem qf_count_eq_stored (q : Int) (auto : Bool) (b : Nat) (ops : List C04.Op)
    (hops : ∀ op ∈ ops, op.InRange) (s0 s : QF) (hnew : QF.new q auto = .ok s0)
    (hrun : C04.run b s0 ops = .ok s) :
    ∃ l, getHashes s = .ok l ∧ (s.count : Int) = (l.length : Nat) ∧ l.Nodup := by
  obtain ⟨l, h1, h2, h3, _⟩ := qf_count_history q auto b ops hops s0 s hnew hrun
  exact ⟨l, h1, h2, h3⟩

/-- `elements_added` never goes negative and never reaches the table size on a reachable state -/
theorem qf_count_bounds (q : Int) (auto : Bool) (b : Nat) (ops : List C04.Op)
    (hops : ∀ op ∈ ops, op.InRange) (s0 s : QF) (hnew : QF.new q auto = .ok s0)
    (hrun : C04.run b s0 ops = .ok s) : 0 ≤ s.count ∧ s.count < (s.size : Int) := by
  obtain ⟨l, _, h2, _, _, _, _, _, _, _, h10⟩ := qf_count_history q auto b ops hops s0 s hnew hrun
  rw [h2]; omega

/-- the counter over a history changes exactly as the set does: after one more successful `add` of
    a hash it goes up by one iff the hash was not in the set, after `remove` down by one iff it was -/
theorem qf_count_delta (q : Int) (auto : Bool) (b : Nat) (ops : List C04.Op) (op : C04.Op)
    (hops : ∀ o ∈ ops ++ [op], o.InRange) (s0 s t : QF) (hnew : QF.new q auto = .ok s0)
    (hrun : C04.run b s0 ops = .ok s) (hstep : C04.step b s op = .ok t) :
    let a := C04.absRun auto ⟨q.toNat, []⟩ ops
    match op with
    | .add h => t.count = if h ∈ a.H then s.count else s.count + 1
    | .remove h => t.count = if h ∈ a.H then s.count - 1 else s.count
    | .resize _ => t.count = s.count
    | .merge hs => s.count ≤ t.count ∧ t.count ≤ s.count + (hs.length : Nat) := by
  intro a
  have hrun' : C04.run b s0 (ops ++ [op]) = .ok t := by
    clear hnew hops
    induction ops generalizing s0 with
    | nil =>
        simp only [C04.run] at hrun; cases hrun
        simp only [List.nil_append, C04.run, hstep]
    | cons o os ih =>
        simp only [C04.run] at hrun
        simp only [List.cons_append, C04.run]
        cases hs : C04.step b s0 o with
        | error e => rw [hs] at hrun; cases hrun
        | ok s' => rw [hs] at hrun; exact ih s' hrun
  obtain ⟨_, _, _, hc, _, hsort, _⟩ :=
    C04.C04_exact_set q auto b ops (fun o ho => hops o (List.mem_append_left _ ho)) s0 s hnew hrun
  obtain ⟨_, _, _, hc', _⟩ := C04.C04_exact_set q auto b (ops ++ [op]) hops s0 t hnew hrun'
  have habs : C04.absRun auto ⟨q.toNat, []⟩ (ops ++ [op]) = C04.absStep auto a op := by
    simp only [C04.absRun, List.foldl_append, List.foldl_cons, List.foldl_nil, a]
  rw [habs] at hc'
  change s.count = (a.H.length : Nat) at hc
  cases op with
  | add h =>
      show t.count = _
      rw [hc', hc]
      show (((Spec.insertN h a.H).length : Nat) : Int) = _
      by_cases hm : h ∈ a.H
      · have e : Spec.insertN h a.H = a.H := Spec.insertBy_of_mem Spec.ltN_total h a.H hsort hm
        rw [if_pos hm, e]
      · have e : (Spec.insertN h a.H).length = a.H.length + 1 :=
          Spec.length_insertBy_of_not_mem h a.H hm
        rw [if_neg hm, e]; omega
  | remove h =>
      show t.count = _
      rw [hc', hc]
      show (((Spec.eraseN h a.H).length : Nat) : Int) = _
      by_cases hm : h ∈ a.H
      · rw [if_pos hm]
        have := Spec.length_erase_of_mem hm
        have hpos : 0 < a.H.length := List.length_pos_of_mem hm
        simp only [Spec.eraseN]; omega
      · rw [if_neg hm]
        simp only [Spec.eraseN, List.erase_of_not_mem hm]
  | resize qn =>
      show t.count = _
      rw [hc', hc]; rfl
  | merge hs =>
      show s.count ≤ t.count ∧ _
      rw [hc', hc]
      have key : ∀ (l : List Nat) (a : C04.Abs), Spec.SortedN a.H →
          a.H.length ≤ (l.foldl (C04.absAdd auto) a).H.length ∧
          (l.foldl (C04.absAdd auto) a).H.length ≤ a.H.length + l.length := by
        intro l
        induction l with
        | nil => intro a _; simp
        | cons x l ih =>
            intro a hsa
            have := ih (C04.absAdd auto a x) (Spec.sorted_insertBy Spec.ltN_total x a.H hsa)
            have hx : a.H.length ≤ (C04.absAdd auto a x).H.length ∧
                (C04.absAdd auto a x).H.length ≤ a.H.length + 1 := by
              show a.H.length ≤ (Spec.insertN x a.H).length ∧ (Spec.insertN x a.H).length ≤ _
              by_cases hm : x ∈ a.H
              · have e : Spec.insertN x a.H = a.H := Spec.insertBy_of_mem Spec.ltN_total x a.H hsa hm
                rw [e]; omega
              · have e : (Spec.insertN x a.H).length = a.H.length + 1 :=
                  Spec.length_insertBy_of_not_mem x a.H hm
                rw [e]; omega
            simp only [List.foldl_cons, List.length_cons]
            omega
      have := key hs a hsort
      change ((a.H.length : Nat) : Int) ≤ (((hs.foldl (C04.absAdd auto) a).H.length : Nat) : Int) ∧
        (((hs.foldl (C04.absAdd auto) a).H.length : Nat) : Int) ≤ (a.H.length : Nat) + (hs.length : Nat)
      omega

/-! ### non-vacuity: the concrete history of C04's examples (wrapping run, one removal) -/

private def exOps : List C04.Op :=
  [.add (Spec.enc 3 (0, 1)), .add (Spec.enc 3 (7, 2)), .add (Spec.enc 3 (7, 0)),
   .remove (Spec.enc 3 (0, 1))]

private theorem exOps_range : ∀ op ∈ exOps, op.InRange := by
  intro op hop
  simp only [exOps, List.mem_cons, List.not_mem_nil, or_false] at hop
  rcases hop with rfl | rfl | rfl | rfl <;> simp only [C04.Op.InRange] <;> decide

private theorem exOps_run :
    C04.run 1 (QF.empty 3 false) exOps = .ok (Spec.layout 3 false [(7, 0), (7, 2)]) :=
  (QFBounded.okEq_iff _ _).1 (by decide +kernel)

/-- the theorem instantiated: the history did not raise, two hashes are stored, the counter is 2 -/
example : ∃ l, getHashes (Spec.layout 3 false [(7, 0), (7, 2)]) = .ok l ∧
    ((Spec.layout 3 false [(7, 0), (7, 2)]).count : Int) = (l.length : Nat) ∧ l.Nodup :=
  qf_count_eq_stored 3 false 1 exOps exOps_range _ _ rfl exOps_run

example : (Spec.layout 3 false [(7, 0), (7, 2)]).count = 2 := by decide +kernel

end PyProb.Corollaries
