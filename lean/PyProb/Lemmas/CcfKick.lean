/-
  C08, counting-cuckoo half, with kicks and automatic expansions
  (probables/cuckoo/cuckoo.py `_insert_fingerprint_alt`, `_expand_logic`; model `kick`, `insertFp`,
  `reinsert`, `expandLogic`).  Proves `ccf_exact_with_kicks_statement` of `CcfCount.lean`:
    `swap_spec`        one eviction: the bin in hand and the evicted bin trade places, the table plus
                       the bin in hand is the same association list before and after;
    `ccf_kick_spec`        the kick loop, when it succeeds, stores the bin in hand, keeps every other
                       count, keeps `Inv` (candidate-bucket placement included);
    `ccf_insertFp_spec`    first fit / kick loop; on failure the table is returned unchanged;
    `ccf_reinsert_spec`, `ccf_expandLogic_spec`  an expansion re-inserts every bin with its count;
    `ccf_add_any`, `ccf_step_any`, `ccf_run_any`, `ccf_exact_any`, `ccf_exact_with_kicks`.
  Core Lean only.
-/
import PyProb.Lemmas.CcfCount
namespace PyProb.Ccf
open PyProb Cuckoo

theorem lookup_cons (x : CBin) (L : List CBin) (fp : Nat) :
    lookup (x :: L) fp = if x.1 = fp then x.2 else lookup L fp := by
  unfold lookup
  by_cases e : x.1 = fp
  · have : (x.1 == fp) = true := by simpa using e
    rw [List.find?_cons_of_pos (p := fun y : CBin => y.1 == fp) (h := this), if_pos e]; rfl
  · have : ¬ (x.1 == fp) = true := by simpa using e
    rw [List.find?_cons_of_neg (p := fun y : CBin => y.1 == fp) (h := this), if_neg e]

theorem lookup_nil (fp : Nat) : lookup [] fp = 0 := rfl

theorem lookup_append_congr (R : List CBin) {L1 L2 : List CBin} (h : ∀ fp, lookup L1 fp = lookup L2 fp)
    (fp : Nat) : lookup (R ++ L1) fp = lookup (R ++ L2) fp := by
  induction R with
  | nil => exact h fp
  | cons r R ih => simp only [List.cons_append, lookup_cons, ih]

theorem lookup_middle (R L : List CBin) (x : CBin) (hx : x.1 ∉ R.map (·.1)) (fp : Nat) :
    lookup (R ++ x :: L) fp = lookup (x :: (R ++ L)) fp := by
  induction R with
  | nil => rfl
  | cons r R ih =>
    simp only [List.map_cons, List.mem_cons, not_or] at hx
    simp only [List.cons_append, lookup_cons, ih hx.2]
    have := hx.1
    grind

/-- swapping the bin in hand with a stored bin: as association lists `hand :: (A ++ v :: B)` and
    `v :: (A ++ hand :: B)` are the same -/
theorem nodup_swap {A B : List CBin} {hand v : CBin}
    (h : ((hand :: (A ++ v :: B)).map (·.1)).Nodup) : ((v :: (A ++ hand :: B)).map (·.1)).Nodup := by
  simp only [List.map_cons, List.map_append, List.nodup_cons, List.nodup_append, List.mem_append,
    List.mem_cons, List.mem_map] at h ⊢
  grind

theorem lookup_swap {A B : List CBin} {hand v : CBin}
    (h : ((hand :: (A ++ v :: B)).map (·.1)).Nodup) (fp : Nat) :
    lookup (v :: (A ++ hand :: B)) fp = lookup (hand :: (A ++ v :: B)) fp := by
  apply lookup_congr h (nodup_swap h)
  intro w
  simp only [List.mem_cons, List.mem_append]
  grind


theorem countOf_eq_cons (c : Cuckoo) (x : CBin) (fp : Nat) :
    (if x.1 = fp then x.2 else countOf c fp) = lookup (x :: c.buckets.flatten) fp := by
  rw [lookup_cons]; rfl

/-- one eviction of the kick loop: `hand` takes the place of the bin at `slot` of bucket `idx` -/
theorem swap_spec {G : Nat → Nat} {c : Cuckoo} (inv : Inv G c) {hand : CBin}
    (hfp : hand.1 ∉ c.buckets.flatten.map (·.1)) (hv : 1 ≤ hand.2) {idx : Nat}
    (hidx : idx < c.buckets.length)
    (hi12 : idx = (indices G c hand.1).1 ∨ idx = (indices G c hand.1).2)
    {slot : Nat} (hslot : slot < (c.bucket idx).length) {c1 : Cuckoo}
    (hb : c1.buckets = c.buckets.set idx ((c.bucket idx).set slot hand))
    (hcnt : c1.counting = c.counting) (hcap : c1.cap = c.cap) :
    Inv G c1 ∧ ((c.bucket idx)[slot]).1 ∉ c1.buckets.flatten.map (·.1) ∧ 1 ≤ ((c.bucket idx)[slot]).2 ∧
    (idx = (indices G c ((c.bucket idx)[slot]).1).1 ∨ idx = (indices G c ((c.bucket idx)[slot]).1).2) ∧
    ∀ fp, (if ((c.bucket idx)[slot]).1 = fp then ((c.bucket idx)[slot]).2 else countOf c1 fp) =
          (if hand.1 = fp then hand.2 else countOf c fp) := by
  obtain ⟨hn, hpos, hfl⟩ := inv_split inv hidx
  have hvm : (c.bucket idx)[slot] ∈ c.bucket idx := List.getElem_mem hslot
  generalize hX : c.bucket idx = X at *
  generalize hvv : X[slot] = victim at *
  have hXs : X = X.take slot ++ victim :: X.drop (slot + 1) := by
    rw [← hvv, ← List.drop_eq_getElem_cons hslot, List.take_append_drop]
  have hXs' : X.set slot hand = X.take slot ++ hand :: X.drop (slot + 1) := by
    rw [List.set_eq_take_append_cons_drop, if_pos hslot]
  generalize hA : (c.buckets.take idx).flatten = A at *
  generalize hB : (c.buckets.drop (idx + 1)).flatten = B at *
  have e1 : A ++ X ++ B = (A ++ X.take slot) ++ victim :: (X.drop (slot + 1) ++ B) := by
    conv => lhs; rw [hXs]
    simp only [List.append_assoc, List.cons_append]
  have e2 : A ++ X.set slot hand ++ B = (A ++ X.take slot) ++ hand :: (X.drop (slot + 1) ++ B) := by
    rw [hXs']
    simp only [List.append_assoc, List.cons_append]
  have hfl1 : c1.buckets.flatten = A ++ X.set slot hand ++ B := by
    rw [hb, flatten_set _ _ hidx, hA, hB]
  have hn0 : ((hand :: (A ++ X ++ B)).map (·.1)).Nodup := by
    rw [List.map_cons, List.nodup_cons]
    exact ⟨by rw [← hfl]; exact hfp, hn⟩
  rw [e1] at hn0
  have hn1 := nodup_swap hn0
  rw [← e2, List.map_cons, List.nodup_cons] at hn1
  have hpv : 1 ≤ victim.2 := hpos victim (by simp [hvm])
  have hinv1 : Inv G c1 := by
    refine inv_set inv hidx hb hcnt hcap (by rw [hA, hB]; exact hn1.2) ?_ ?_
    · intro y hy
      rcases List.mem_or_eq_of_mem_set hy with hy | rfl
      · exact inv.2.2.2.2.1 idx hidx y (by rw [hX]; exact hy)
      · exact hi12
    · rw [hA, hB]
      intro y hy
      simp only [List.mem_append] at hy
      rcases hy with (hy | hy) | hy
      · exact hpos y (by simp [hy])
      · rcases List.mem_or_eq_of_mem_set hy with hy | rfl
        · exact hpos y (by simp [hy])
        · exact hv
      · exact hpos y (by simp [hy])
  refine ⟨hinv1, by rw [hfl1]; exact hn1.1, hpv, inv.2.2.2.2.1 idx hidx victim (by rw [hX]; exact hvm), ?_⟩
  intro fp
  rw [countOf_eq_cons, countOf_eq_cons, hfl1, hfl, e1, e2]
  exact lookup_swap hn0 fp


/-- the table after the bin in hand has taken the place of slot `slot` of bucket `idx` -/
def swapIn (c : Cuckoo) (idx slot : Nat) (hand : CBin) : Cuckoo :=
  { c with buckets := c.buckets.set idx ((c.bucket idx).set slot hand) }

/-- the other candidate bucket of `victim`, which was found in bucket `idx` -/
def otherIdx (G : Nat → Nat) (c : Cuckoo) (idx : Nat) (victim : CBin) : Nat :=
  if idx == (indices G c victim.1).1 then (indices G c victim.1).2 else (indices G c victim.1).1

theorem ccf_kick_succ (G : Nat → Nat) (cnt fuel : Nat) (c : Cuckoo) (hand : CBin) (idx : Nat) (oracle : List Nat) :
    kick G cnt (fuel + 1) c hand idx oracle =
      match (swapIn c idx (oracle.headD 0 % c.b) hand).insertAt
              (otherIdx G c idx ((c.bucket idx).getD (oracle.headD 0 % c.b) (0, 0)))
              ((c.bucket idx).getD (oracle.headD 0 % c.b) (0, 0)) with
      | some c' => (some (c'.placed cnt), oracle.tail)
      | none => kick G cnt fuel (swapIn c idx (oracle.headD 0 % c.b) hand)
                  ((c.bucket idx).getD (oracle.headD 0 % c.b) (0, 0))
                  (otherIdx G c idx ((c.bucket idx).getD (oracle.headD 0 % c.b) (0, 0))) oracle.tail := by
  rw [kick]; rfl

theorem kick_b0 (G : Nat → Nat) (cnt fuel : Nat) (c : Cuckoo) (hand : CBin) (idx : Nat) (oracle : List Nat)
    (hb : c.b = 0) : (kick G cnt fuel c hand idx oracle).1 = none := by
  induction fuel generalizing c hand idx oracle with
  | zero => rfl
  | succ fuel ih =>
    rw [ccf_kick_succ]
    have hb1 : (swapIn c idx (oracle.headD 0 % c.b) hand).b = 0 := hb
    rw [insertAt_full _ (by omega)]
    exact ih _ _ _ _ hb1


/-- the table after `__insert_element` of `bin` into bucket `i` -/
def appendAt (c : Cuckoo) (i : Nat) (bin : CBin) : Cuckoo :=
  { c with buckets := c.buckets.set i (c.bucket i ++ [bin]) }

theorem insertAt_room' {c : Cuckoo} {i : Nat} (bin : CBin) (h : (c.bucket i).length < c.b) :
    c.insertAt i bin = some (appendAt c i bin) := by
  unfold insertAt; rw [if_pos h]; rfl

theorem getD_of_lt {α : Type} (l : List α) (i : Nat) (d : α) (h : i < l.length) : l.getD i d = l[i] := by
  simp [List.getD_eq_getElem?_getD, h]

theorem otherIdx_cases (G : Nat → Nat) (c : Cuckoo) (idx : Nat) (victim : CBin) :
    otherIdx G c idx victim = (indices G c victim.1).1 ∨ otherIdx G c idx victim = (indices G c victim.1).2 := by
  unfold otherIdx; split
  · exact Or.inr rfl
  · exact Or.inl rfl

/-- the kick loop, when it succeeds: the bin in hand is stored, every other stored bin keeps its
    count (possibly in its other bucket), the invariant is kept -/
theorem ccf_kick_spec {G : Nat → Nat} (cnt fuel : Nat) {c : Cuckoo} (inv : Inv G c) (hb : 0 < c.b)
    {hand : CBin} (hfp : hand.1 ∉ c.buckets.flatten.map (·.1)) (hv : 1 ≤ hand.2) {idx : Nat}
    (hidx : idx < c.buckets.length)
    (hi12 : idx = (indices G c hand.1).1 ∨ idx = (indices G c hand.1).2)
    (hfull : c.b ≤ (c.bucket idx).length) (oracle : List Nat) {c' : Cuckoo} {o' : List Nat}
    (hk : kick G cnt fuel c hand idx oracle = (some c', o')) :
    Inv G c' ∧ SameParams c c' ∧
    ∀ fp, countOf c' fp = if hand.1 = fp then hand.2 else countOf c fp := by
  induction fuel generalizing c hand idx oracle with
  | zero => simp [kick] at hk
  | succ fuel ih =>
    rw [ccf_kick_succ] at hk
    have hslot : oracle.headD 0 % c.b < (c.bucket idx).length :=
      Nat.lt_of_lt_of_le (Nat.mod_lt _ hb) hfull
    generalize oracle.headD 0 % c.b = slot at hk hslot
    rw [getD_of_lt _ _ _ hslot] at hk
    obtain ⟨inv1, hvfp, hvpos, hvidx, hcount⟩ :=
      swap_spec inv hfp hv hidx hi12 hslot (c1 := swapIn c idx slot hand) rfl rfl rfl
    generalize hvic : (c.bucket idx)[slot] = victim at hk hvfp hvpos hvidx hcount
    have hs1 : SameParams c (swapIn c idx slot hand) := ⟨rfl, rfl, rfl, rfl, rfl, rfl, rfl⟩
    have hlen1 : (swapIn c idx slot hand).buckets.length = c.buckets.length := by
      simp [swapIn]
    have ho12 : otherIdx G c idx victim = (indices G (swapIn c idx slot hand) victim.1).1 ∨
        otherIdx G c idx victim = (indices G (swapIn c idx slot hand) victim.1).2 :=
      otherIdx_cases G c idx victim
    have holt : otherIdx G c idx victim < (swapIn c idx slot hand).buckets.length := by
      rcases ho12 with e | e <;> rw [e]
      · exact (indices_lt inv1 _).1
      · exact (indices_lt inv1 _).2
    by_cases hroom : ((swapIn c idx slot hand).bucket (otherIdx G c idx victim)).length < c.b
    · rw [insertAt_room' _ hroom] at hk
      simp only [Prod.mk.injEq, Option.some.injEq] at hk
      obtain ⟨hk, _⟩ := hk
      subst hk
      obtain ⟨inv2, hc1, hc2⟩ := append_bin inv1 (fp := victim.1) (v := victim.2) hvpos hvfp holt ho12
        (c' := (appendAt (swapIn c idx slot hand) (otherIdx G c idx victim) victim).placed cnt)
        rfl rfl rfl
      refine ⟨inv2, ⟨rfl, rfl, rfl, rfl, rfl, rfl, rfl⟩, ?_⟩
      intro fp
      rw [← hcount fp]
      split
      · rename_i e; subst e; exact hc1
      · rename_i e; exact hc2 fp (fun x => e x.symm)
    · rw [insertAt_full _ hroom] at hk
      obtain ⟨inv', hs', hc'⟩ := ih inv1 hb hvfp hvpos holt ho12 (Nat.le_of_not_lt hroom) _ hk
      exact ⟨inv', hs1.trans hs', fun fp => by rw [hc' fp, hcount fp]⟩


/-- `_insert_fingerprint` of a fresh bin, in full (first fit, else the kick loop): on success the
    bin is stored and nothing else changes; on failure the table is returned as it was together
    with the bin -/
theorem ccf_insertFp_spec {G : Nat → Nat} {c : Cuckoo} (inv : Inv G c) {fp v : Nat} (hv : 1 ≤ v)
    (hfp : fp ∉ c.buckets.flatten.map (·.1)) (oracle : List Nat) :
    (∀ c' o', insertFp G c (fp, v) (indices G c fp).1 (indices G c fp).2 oracle = (c', none, o') →
        Inv G c' ∧ SameParams c c' ∧ ∀ fp', countOf c' fp' = if fp = fp' then v else countOf c fp') ∧
    (∀ c' left o', insertFp G c (fp, v) (indices G c fp).1 (indices G c fp).2 oracle = (c', some left, o') →
        c' = c ∧ left = (fp, v)) := by
  by_cases hroom : (c.bucket (indices G c fp).1).length < c.b ∨ (c.bucket (indices G c fp).2).length < c.b
  · obtain ⟨c'', i, hins, _, _, _, _, hs, _, _, hinv, hc1, hc2⟩ := insertFp_room inv hv hfp oracle hroom
    rw [hins]
    constructor
    · intro c' o' he
      simp only [Prod.mk.injEq] at he
      obtain ⟨rfl, _, _⟩ := he
      refine ⟨hinv, hs, ?_⟩
      intro fp'
      split
      · rename_i e; subst e; exact hc1
      · rename_i e; exact hc2 fp' (fun x => e x.symm)
    · intro c' left o' he
      simp at he
  · have h1 : ¬ (c.bucket (indices G c fp).1).length < c.b := fun h => hroom (Or.inl h)
    have h2 : ¬ (c.bucket (indices G c fp).2).length < c.b := fun h => hroom (Or.inr h)
    obtain ⟨l1, l2⟩ := indices_lt inv fp
    unfold insertFp
    rw [insertAt_full _ h1]
    simp only []
    rw [insertAt_full _ h2]
    simp only []
    generalize hidx : (if (oracle.headD 0 == 0) = true then (indices G c fp).1 else (indices G c fp).2) = idx
    have hi12 : idx = (indices G c fp).1 ∨ idx = (indices G c fp).2 := by
      rw [← hidx]; split
      · exact Or.inl rfl
      · exact Or.inr rfl
    have hlt : idx < c.buckets.length := by rcases hi12 with e | e <;> rw [e] <;> assumption
    have hfull : c.b ≤ (c.bucket idx).length := by
      rcases hi12 with e | e <;> rw [e] <;> omega
    cases hk : kick G v c.maxSwaps c (fp, v) idx oracle.tail with
    | mk r o'' =>
      cases r with
      | none =>
        simp only []
        constructor
        · intro c' o' he; simp at he
        · intro c' left o' he
          simp only [Prod.mk.injEq, Option.some.injEq] at he
          exact ⟨he.1.symm, he.2.1.symm⟩
      | some c2 =>
        simp only []
        constructor
        · intro c' o' he
          simp only [Prod.mk.injEq, true_and] at he
          obtain ⟨rfl, _⟩ := he
          have hb : 0 < c.b := by
            apply Nat.pos_of_ne_zero
            intro hb0
            have := kick_b0 G v c.maxSwaps c (fp, v) idx oracle.tail hb0
            rw [hk] at this
            simp at this
          exact ccf_kick_spec v c.maxSwaps inv hb (hand := (fp, v)) hfp hv hlt hi12 hfull _ hk
        · intro c' left o' he; simp at he


/-- the settings no operation touches (everything but the capacity, which an expansion multiplies) -/
def SameCfg (c c' : Cuckoo) : Prop :=
  c'.counting = c.counting ∧ c'.b = c.b ∧ c'.maxSwaps = c.maxSwaps ∧
  c'.rate = c.rate ∧ c'.auto = c.auto ∧ c'.fpBits = c.fpBits

theorem SameParams.cfg {c c' : Cuckoo} (h : SameParams c c') : SameCfg c c' :=
  ⟨h.1, h.2.2.1, h.2.2.2.1, h.2.2.2.2.1, h.2.2.2.2.2.1, h.2.2.2.2.2.2⟩

theorem SameCfg.trans {a b c : Cuckoo} (h1 : SameCfg a b) (h2 : SameCfg b c) : SameCfg a c := by
  unfold SameCfg at *
  obtain ⟨a1, a2, a3, a4, a5, a6⟩ := h1
  obtain ⟨b1, b2, b3, b4, b5, b6⟩ := h2
  exact ⟨b1.trans a1, b2.trans a2, b3.trans a3, b4.trans a4, b5.trans a5, b6.trans a6⟩

theorem SameCfg.refl (c : Cuckoo) : SameCfg c c := ⟨rfl, rfl, rfl, rfl, rfl, rfl⟩

/-- re-insertion of a list of fresh bins: when it succeeds every bin is stored with its count -/
theorem ccf_reinsert_spec {G : Nat → Nat} (bins : List CBin) {c : Cuckoo} (inv : Inv G c)
    (hn : (bins.map (·.1)).Nodup) (hd : ∀ x ∈ bins, x.1 ∉ c.buckets.flatten.map (·.1))
    (hp : ∀ x ∈ bins, 1 ≤ x.2) (oracle : List Nat) {c' : Cuckoo} {o' : List Nat}
    (h : reinsert G bins c oracle = (some c', o')) :
    Inv G c' ∧ SameParams c c' ∧ ∀ fp, countOf c' fp = lookup (bins ++ c.buckets.flatten) fp := by
  induction bins generalizing c oracle with
  | nil =>
    simp only [reinsert, Prod.mk.injEq, Option.some.injEq] at h
    obtain ⟨rfl, _⟩ := h
    exact ⟨inv, ⟨rfl, rfl, rfl, rfl, rfl, rfl, rfl⟩, fun _ => rfl⟩
  | cons bin rest ih =>
    rw [reinsert] at h
    simp only [] at h
    have hbin : bin.1 ∉ c.buckets.flatten.map (·.1) := hd bin (by simp)
    have hspec := (ccf_insertFp_spec inv (fp := bin.1) (v := bin.2) (hp bin (by simp)) hbin oracle).1
    cases hins : insertFp G c bin (indices G c bin.1).1 (indices G c bin.1).2 oracle with
    | mk c1 r =>
      obtain ⟨r, o1⟩ := r
      rw [hins] at h
      cases r with
      | some left => simp at h
      | none =>
        simp only [] at h
        obtain ⟨inv1, hs1, hc1⟩ := hspec c1 o1 hins
        simp only [List.map_cons, List.nodup_cons] at hn
        have hd1 : ∀ x ∈ rest, x.1 ∉ c1.buckets.flatten.map (·.1) := by
          intro x hx hc
          have h0 := (countOf_pos_iff inv1 x.1).2 hc
          rw [hc1 x.1] at h0
          have hne : ¬ bin.1 = x.1 := fun e => hn.1 (e ▸ List.mem_map.2 ⟨x, hx, rfl⟩)
          rw [if_neg hne] at h0
          have : countOf c x.1 = 0 := lookup_of_not_mem (hd x (by simp [hx]))
          omega
        obtain ⟨inv', hs', hc'⟩ := ih inv1 hn.2 hd1 (fun x hx => hp x (by simp [hx])) o1 h
        refine ⟨inv', hs1.trans hs', ?_⟩
        intro fp
        rw [hc' fp]
        have : ∀ fp, lookup c1.buckets.flatten fp = lookup (bin :: c.buckets.flatten) fp := by
          intro fp
          rw [lookup_cons]
          exact hc1 fp
        rw [lookup_append_congr rest this fp, lookup_middle rest _ bin hn.1 fp]
        rfl

/-- the emptied, enlarged table an expansion starts from -/
def ccf_emptied (c : Cuckoo) : Cuckoo :=
  { c with cap := c.cap * c.rate, buckets := List.replicate (c.cap * c.rate) [], count := 0, unique := 0 }

theorem inv_emptied {G : Nat → Nat} {c : Cuckoo} (inv : Inv G c) (hr : 0 < c.rate) : Inv G (ccf_emptied c) := by
  refine ⟨inv.1, by simp [ccf_emptied], Nat.mul_pos inv.2.2.1 hr, ?_, ?_, ?_⟩
  · simp [ccf_emptied]
  · intro i hi bin hb
    simp [ccf_emptied, bucket, List.getD_eq_getElem?_getD] at hb hi
    simp [hi] at hb
  · simp [ccf_emptied]

theorem ccf_expandLogic_spec {G : Nat → Nat} {c : Cuckoo} (inv : Inv G c) (hr : 0 < c.rate) {fp : Nat}
    (hfp : fp ∉ c.buckets.flatten.map (·.1)) (oracle : List Nat) {c' : Cuckoo} {o' : List Nat}
    (h : expandLogic G c (some (fp, 1)) oracle = (c', none, o')) :
    Inv G c' ∧ SameCfg c c' ∧ c'.cap = c.cap * c.rate ∧
    ∀ fp', countOf c' fp' = if fp = fp' then 1 else countOf c fp' := by
  unfold expandLogic at h
  simp only [Option.toList_some, List.singleton_append] at h
  change (match reinsert G ((fp, 1) :: c.buckets.flatten) (ccf_emptied c) oracle with
    | (some c', oracle') => (c', none, oracle')
    | (none, oracle') => (c, some Err.cuckooFull, oracle')) = (c', none, o') at h
  cases hre : reinsert G ((fp, 1) :: c.buckets.flatten) (ccf_emptied c) oracle with
  | mk r o1 =>
    rw [hre] at h
    cases r with
    | none => simp at h
    | some c2 =>
      simp only [Prod.mk.injEq, true_and] at h
      obtain ⟨rfl, _⟩ := h
      have hn : (((fp, 1) :: c.buckets.flatten).map (·.1)).Nodup := by
        rw [List.map_cons, List.nodup_cons]; exact ⟨hfp, inv.2.2.2.1⟩
      obtain ⟨inv', hs', hc'⟩ := ccf_reinsert_spec _ (inv_emptied inv hr) hn
        (by intro x _; simp [ccf_emptied])
        (by
          intro x hx
          rcases List.mem_cons.1 hx with rfl | hx
          · exact Nat.le_refl 1
          · exact inv.2.2.2.2.2 x hx) oracle hre
      refine ⟨inv', (SameCfg.trans ⟨rfl, rfl, rfl, rfl, rfl, rfl⟩ hs'.cfg : SameCfg c c2), hs'.2.1, ?_⟩
      intro fp'
      rw [hc' fp']
      have : (ccf_emptied c).buckets.flatten = [] := by simp [ccf_emptied]
      rw [this, List.append_nil, lookup_cons]
      rfl


/-- **any add that reports no error** (stored fingerprint, first fit, kick loop, or automatic
    expansion): the count of the key's fingerprint goes up by one, no other count changes -/
theorem ccf_add_any {G : Nat → Nat} {c : Cuckoo} (inv : Inv G c) (hr : 0 < c.rate) (h : Nat)
    (oracle : List Nat) {c' : Cuckoo} {o' : List Nat} (ha : add G c h oracle = (c', none, o')) :
    Inv G c' ∧ SameCfg c c' ∧
    ∀ fp', countOf c' fp' = if c.fingerprint h = fp' then countOf c fp' + 1 else countOf c fp' := by
  rcases present_cases inv (c.fingerprint h) with ⟨e, hfp, e0⟩ | ⟨i, v, _, _, _, _, hv, ev, _⟩
  · unfold add at ha
    simp only [] at ha
    rw [e] at ha
    simp only [] at ha
    obtain ⟨hspec1, hspec2⟩ := ccf_insertFp_spec inv (fp := c.fingerprint h) (v := 1) (Nat.le_refl 1) hfp oracle
    cases hins : insertFp G c (c.fingerprint h, 1) (indices G c (c.fingerprint h)).1
        (indices G c (c.fingerprint h)).2 oracle with
    | mk c1 r =>
      obtain ⟨r, o1⟩ := r
      rw [hins] at ha
      cases r with
      | none =>
        simp only [Prod.mk.injEq, true_and] at ha
        obtain ⟨rfl, _⟩ := ha
        obtain ⟨inv1, hs1, hc1⟩ := hspec1 c1 o1 hins
        refine ⟨inv1, hs1.cfg, ?_⟩
        intro fp'
        rw [hc1 fp']
        split
        · rename_i e'; subst e'; rw [e0]
        · rfl
      | some left =>
        obtain ⟨rfl, rfl⟩ := hspec2 c1 left o1 hins
        simp only [] at ha
        split at ha
        · obtain ⟨inv1, hs1, _, hc1⟩ := ccf_expandLogic_spec inv hr hfp o1 ha
          refine ⟨inv1, hs1, ?_⟩
          intro fp'
          rw [hc1 fp']
          split
          · rename_i e'; subst e'; rw [e0]
          · rfl
        · simp at ha
  · obtain ⟨c'', ha', hinv, hs, _, _, _, h1, h2, _⟩ := ccf_add_present inv h oracle (by omega)
    rw [ha'] at ha
    simp only [Prod.mk.injEq, true_and] at ha
    obtain ⟨rfl, _⟩ := ha
    refine ⟨hinv, hs.cfg, ?_⟩
    intro fp'
    split
    · rename_i e'; subst e'; exact h1
    · rename_i e'; exact h2 fp' (fun x => e' x.symm)

/-- one call that reports no error, kicks and expansions included -/
theorem ccf_step_any {G : Nat → Nat} {c : Cuckoo} (inv : Inv G c) (hr : 0 < c.rate) (oracle : List Nat)
    (op : Op) (he : stepErr G (c, oracle) op = none) :
    Inv G (step G (c, oracle) op).1 ∧ SameCfg c (step G (c, oracle) op).1 ∧
    ∀ fp, countOf (step G (c, oracle) op).1 fp = tally c.fingerprint fp (countOf c fp) op := by
  cases op with
  | add h =>
    have ha : add G c h oracle = ((add G c h oracle).1, none, (add G c h oracle).2.2) := by
      simp only [stepErr] at he
      rw [← he]
    obtain ⟨hi, hs, hc⟩ := ccf_add_any inv hr h oracle ha
    exact ⟨hi, hs, hc⟩
  | remove h =>
    obtain ⟨hi, hs, _, _, hc⟩ := ccf_step inv oracle (.remove h) trivial
    exact ⟨hi, hs.cfg, hc⟩

/-- a whole history in which no call reported an error, from any well-formed filter -/
theorem ccf_run_any {G : Nat → Nat} {c : Cuckoo} (inv : Inv G c) (hr : 0 < c.rate) (oracle : List Nat)
    (ops : List Op) (hok : AllAddsOk G (c, oracle) ops) :
    Inv G (run G c oracle ops).1 ∧ SameCfg c (run G c oracle ops).1 ∧
    ∀ fp, countOf (run G c oracle ops).1 fp = ops.foldl (tally c.fingerprint fp) (countOf c fp) := by
  induction ops generalizing c oracle with
  | nil => exact ⟨inv, SameCfg.refl c, fun _ => rfl⟩
  | cons op ops ih =>
    obtain ⟨he, hok'⟩ := hok
    obtain ⟨hi, hs, hc⟩ := ccf_step_any inv hr oracle op he
    have hr' : 0 < (step G (c, oracle) op).1.rate := by rw [hs.2.2.2.1]; exact hr
    obtain ⟨ri, rs, rc⟩ := ih hi hr' (step G (c, oracle) op).2 hok'
    have hrun : run G c oracle (op :: ops) =
        run G (step G (c, oracle) op).1 (step G (c, oracle) op).2 ops := rfl
    rw [hrun]
    refine ⟨ri, hs.trans rs, ?_⟩
    intro fp
    rw [rc fp, funext (fingerprint_congr hs.2.2.2.2.2), hc fp, List.foldl_cons]

/-- **C08, cuckoo half, in full**: kicks and automatic expansions included, for every oracle. -/
theorem ccf_exact_with_kicks : ccf_exact_with_kicks_statement := by
  intro G cap b maxSwaps rate auto fpBits hcap hrate oracle ops hok h
  obtain ⟨ri, rs, rc⟩ := ccf_run_any (inv_new G cap b maxSwaps rate auto fpBits hcap) hrate oracle ops hok
  rw [ccf_check ri, fingerprint_congr rs.2.2.2.2.2, rc, countOf_new]
  rfl


/-- the same with the invariant and the settings at the end made explicit -/
theorem ccf_exact_any (G : Nat → Nat) (cap b maxSwaps rate : Nat) (auto : Bool) (fpBits : Nat)
    (hcap : 0 < cap) (hrate : 0 < rate) (oracle : List Nat) (ops : List Op)
    (hok : AllAddsOk G (Cuckoo.new true cap b maxSwaps rate auto fpBits, oracle) ops) :
    Inv G (run G (Cuckoo.new true cap b maxSwaps rate auto fpBits) oracle ops).1 ∧
    SameCfg (Cuckoo.new true cap b maxSwaps rate auto fpBits)
      (run G (Cuckoo.new true cap b maxSwaps rate auto fpBits) oracle ops).1 ∧
    ∀ h, check G (run G (Cuckoo.new true cap b maxSwaps rate auto fpBits) oracle ops).1 h =
      outstanding (Cuckoo.new true cap b maxSwaps rate auto fpBits).fingerprint ops
        ((Cuckoo.new true cap b maxSwaps rate auto fpBits).fingerprint h) := by
  obtain ⟨ri, rs, _⟩ := ccf_run_any (inv_new G cap b maxSwaps rate auto fpBits hcap) hrate oracle ops hok
  exact ⟨ri, rs, ccf_exact_with_kicks G cap b maxSwaps rate auto fpBits hcap hrate oracle ops hok⟩

/-! ### tests (non-vacuity) -/

section Tests

private def G1 : Nat → Nat := fun fp => fp + 1

/-- 3 one-slot buckets: fingerprints 3 and 6 both want buckets 0/1, fingerprint 4 wants 1/2.  The
    third add finds both its buckets full and succeeds by two evictions (3 moves to bucket 1,
    4 moves to bucket 2), consuming three draws. -/
private def opsK : List Op := [.add 3, .add 4, .add 6, .add 3, .remove 4]

example : ¬ NoKick G1 (Cuckoo.new true 3 1 5 2 false 8, [0, 0, 0, 7]) opsK := by decide
example : AllAddsOk G1 (Cuckoo.new true 3 1 5 2 false 8, [0, 0, 0, 7]) opsK := by decide
example : (run G1 (Cuckoo.new true 3 1 5 2 false 8) [0, 0, 0, 7] (opsK.take 3)) =
    (⟨true, 3, 1, 5, 2, false, 8, [[(6, 1)], [(3, 1)], [(4, 1)]], 3, 3⟩, [7]) := by decide
example : (run G1 (Cuckoo.new true 3 1 5 2 false 8) [0, 0, 0, 7] opsK).1.buckets =
    [[(6, 1)], [(3, 2)], []] := by decide
example := ccf_exact_any G1 3 1 5 2 false 8 (by decide) (by decide) [0, 0, 0, 7] opsK (by decide)

/-- a history with an automatic expansion: one bucket of one slot, the second add cannot be placed
    by kicking and the table doubles -/
example : AllAddsOk G1 (Cuckoo.new true 1 1 2 2 true 8, [0, 0, 0]) [.add 1, .add 1, .add 2] ∧
    (run G1 (Cuckoo.new true 1 1 2 2 true 8) [0, 0, 0] [.add 1, .add 1, .add 2]).1.cap = 2 ∧
    (run G1 (Cuckoo.new true 1 1 2 2 true 8) [0, 0, 0] [.add 1, .add 1, .add 2]).1.buckets =
      [[(2, 1)], [(1, 2)]] := by decide

/-- without automatic expansion the same add reports CuckooFilterFullError and is excluded by
    `AllAddsOk` -/
example : ¬ AllAddsOk G1 (Cuckoo.new true 1 1 2 2 false 8, [0, 0, 0]) [.add 1, .add 1, .add 2] := by decide

end Tests

end PyProb.Ccf
