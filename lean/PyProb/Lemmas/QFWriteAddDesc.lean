/-
  From the slot-by-slot description `Desc` of the table after `_shift_insert` to the linear view
  of the new table: if `s` is in the linear view with element sequence `d`, `r`, and `t` is `s` with
  a new element stored at the position that the sequence with the new element inserted at index `j`
  (`insAt`) assigns to it, the contiguous elements behind it moved by one, then `t` is in the linear
  view with the new sequence.
-/
import PyProb.Lemmas.QFWriteAddShift

namespace PyProb.QFLin
open PyProb PyProb.QF

/-- the sequence `f` with `v` inserted at index `j` -/
def insAt (j v : Nat) (f : Nat → Nat) (i : Nat) : Nat := if i < j then f i else if i = j then v else f (i - 1)

theorem insAt_lt (j v : Nat) (f : Nat → Nat) (i : Nat) (h : i < j) : insAt j v f i = f i := by simp [insAt, h]
theorem insAt_eq (j v : Nat) (f : Nat → Nat) : insAt j v f j = v := by simp [insAt]
theorem insAt_gt (j v : Nat) (f : Nat → Nat) (i : Nat) (h : j ≤ i) : insAt j v f (i + 1) = f i := by
  simp only [insAt]
  rw [if_neg (by omega), if_neg (by omega), Nat.add_sub_cancel]

/-! ### positions of the new sequence -/

theorem pos_ins_lt (j D : Nat) (d : Nat → Nat) (i : Nat) (h : i < j) : posF (insAt j D d) i = posF d i :=
  posF_congr _ _ i (fun k hk => insAt_lt j D d k (by omega))

theorem pos_ins_j (j D : Nat) (d : Nat → Nat) :
    posF (insAt j D d) j = if j = 0 then D else max (posF d (j - 1) + 1) D := by
  cases j with
  | zero => simp [posF, insAt]
  | succ j =>
      simp only [posF, insAt_eq, Nat.add_sub_cancel, Nat.add_one_ne_zero, if_false]
      rw [pos_ins_lt (j + 1) D d j (by omega)]

theorem pos_ins_succ (j D : Nat) (d : Nat → Nat) (i : Nat) (h : j ≤ i) :
    posF (insAt j D d) (i + 1) = max (posF (insAt j D d) i + 1) (d i) := by
  simp only [posF, insAt_gt j D d i h]

/-- inserting an element never moves another element to the left -/
theorem pos_ins_ge (j D : Nat) (d : Nat → Nat) (i : Nat) (h : j ≤ i) :
    posF d i ≤ posF (insAt j D d) (i + 1) := by
  induction i with
  | zero =>
      rw [pos_ins_succ j D d 0 h]
      simp only [posF]; omega
  | succ i ih =>
      rw [pos_ins_succ j D d (i + 1) h]
      have e1 : posF d (i + 1) = max (posF d i + 1) (d (i + 1)) := rfl
      by_cases hji : j ≤ i
      · have := ih hji
        omega
      · have hj : j = i + 1 := by omega
        have := pos_ins_lt j D d i (by omega)
        have h2 := p_step (insAt j D d) i
        omega

section K
variable {s : QF} {n e m : Nat} {d r : Nat → Nat}

/-- the block of contiguous elements from the insertion position on -/
theorem ins_block (d : Nat → Nat) (m j P : Nat) (hP : j < m → P ≤ posF d j) :
    ∃ k, (∀ u, u < k → j + u < m ∧ posF d (j + u) = P + u) ∧ (j + k < m → P + k < posF d (j + k)) := by
  obtain ⟨k, _, hk, hmin⟩ := exists_first (fun u => ¬ (j + u < m ∧ posF d (j + u) = P + u)) m (by
    intro h; omega)
  refine ⟨k, ?_, ?_⟩
  · intro u hu
    have := hmin u hu
    exact Classical.not_not.1 this
  · intro hjk
    have hne : posF d (j + k) ≠ P + k := fun h => hk ⟨hjk, h⟩
    cases k with
    | zero => have := hP hjk; simp only [Nat.add_zero] at *; omega
    | succ k =>
        have h1 := Classical.not_not.1 (hmin k (by omega))
        have h2 := p_step d (j + k)
        rw [show j + (k + 1) = j + k + 1 by omega] at hne ⊢
        omega

/-- the positions of the new sequence in terms of the old ones -/
theorem ins_positions (d : Nat → Nat) (m j D k : Nat)
    (hblock : ∀ u, u < k → j + u < m ∧ posF d (j + u) = posF (insAt j D d) j + u)
    (hgap : j + k < m → posF (insAt j D d) j + k < posF d (j + k))
    (hle : ∀ i, i < m → d i ≤ posF d i) :
    (∀ u, u < k → posF (insAt j D d) (j + 1 + u) = posF (insAt j D d) j + u + 1) ∧
    (∀ i, j + k ≤ i → i < m → posF (insAt j D d) (i + 1) = posF d i) := by
  have hN1 : ∀ u, u < k → posF (insAt j D d) (j + 1 + u) = posF (insAt j D d) j + u + 1 := by
    intro u
    induction u with
    | zero =>
        intro hu
        obtain ⟨h1, h2⟩ := hblock 0 hu
        have := hle j (by omega)
        rw [Nat.add_zero, pos_ins_succ j D d j (Nat.le_refl _)]
        simp only [Nat.add_zero] at h2
        omega
    | succ u ih =>
        intro hu
        have ih := ih (by omega)
        obtain ⟨h1, h2⟩ := hblock (u + 1) hu
        have := hle (j + (u + 1)) h1
        rw [show j + 1 + (u + 1) = (j + (u + 1)) + 1 by omega, pos_ins_succ j D d _ (by omega),
          show j + (u + 1) = j + 1 + u by omega, ih]
        rw [show j + (u + 1) = j + 1 + u by omega] at h2 this
        omega
  refine ⟨hN1, ?_⟩
  have hPk : posF (insAt j D d) (j + k) = posF (insAt j D d) j + k := by
    cases k with
    | zero => rfl
    | succ k =>
        have := hN1 k (by omega)
        rw [show j + (k + 1) = j + 1 + k by omega, this]; omega
  intro i hi
  induction i with
  | zero =>
      intro hm
      have hj0 : j = 0 := by omega
      have hk0 : k = 0 := by omega
      subst hj0 hk0
      have := hgap (by omega)
      rw [pos_ins_succ 0 D d 0 (Nat.le_refl _)]
      simp only [Nat.add_zero, posF] at this ⊢
      omega
  | succ i ih =>
      intro hm
      rw [pos_ins_succ j D d (i + 1) (by omega)]
      by_cases hji : j + k ≤ i
      · rw [ih hji (by omega)]
        simp only [posF]
      · have hi' : i + 1 = j + k := by omega
        have hg := hgap (by omega)
        rw [hi', hPk]
        rw [← hi'] at hg ⊢
        -- the element behind the block is at home
        have hhome : posF d (i + 1) = d (i + 1) := by
          cases k with
          | zero =>
              have hj : j = i + 1 := by omega
              subst hj
              have hpj := pos_ins_j (i + 1) D d
              rw [if_neg (by omega), Nat.add_sub_cancel] at hpj
              simp only [Nat.add_zero] at hg
              have e1 : posF d (i + 1) = max (posF d i + 1) (d (i + 1)) := rfl
              omega
          | succ k =>
              obtain ⟨h1, h2⟩ := hblock k (by omega)
              rw [show j + k = i by omega] at h2
              simp only [posF] at hg ⊢
              omega
        omega

end K

/-! ### the new table is in the linear view -/

section main
variable {s t : QF} {n e m : Nat} {d r : Nat → Nat}

theorem contF_ins_lt (j D : Nat) (d : Nat → Nat) (i : Nat) (h : i < j) : contF (insAt j D d) i = contF d i := by
  simp only [contF]
  rw [insAt_lt j D d i h]
  by_cases h0 : i = 0
  · simp [h0]
  · rw [insAt_lt j D d (i - 1) (by omega)]

theorem contF_ins_gt (j D : Nat) (d : Nat → Nat) (i : Nat) (h : j + 1 ≤ i) :
    contF (insAt j D d) (i + 1) = contF d i := by
  simp only [contF, Nat.add_sub_cancel]
  rw [insAt_gt j D d i (by omega)]
  have : insAt j D d i = d (i - 1) := by
    have := insAt_gt j D d (i - 1) (by omega)
    rw [show i - 1 + 1 = i by omega] at this
    exact this
  rw [this]
  have t1 : decide (i + 1 ≠ 0) = true := by simp
  have t2 : decide (i ≠ 0) = true := by simp; omega
  rw [t1, t2]

/-- **the table after `_shift_insert` is in the linear view of the new sequence** -/
theorem desc_lin (L : Lin s n e m d r) (X : Extra s n e m d) (j D rr k : Nat) (nc fl : Bool) (hj : j ≤ m)
    (hD : Desc t s n e (posF (insAt j D d) j) k D rr nc fl)
    (hblock : ∀ u, u < k → j + u < m ∧ posF d (j + u) = posF (insAt j D d) j + u)
    (hgap : j + k < m → posF (insAt j D d) j + k < posF d (j + k))
    (hsorted : ∀ i, i + 1 < m + 1 → insAt j D d i < insAt j D d (i + 1) ∨
      (insAt j D d i = insAt j D d (i + 1) ∧ insAt j rr r i < insAt j rr r (i + 1)))
    (hfit : ∀ i, i < m + 1 → posF (insAt j D d) i + 2 ≤ n)
    (hnc : nc = contF (insAt j D d) j)
    (hfl : j < m → (if 1 ≤ k ∧ fl = true then true else contF d j) = contF (insAt j D d) (j + 1)) :
    Lin t n e (m + 1) (insAt j D d) (insAt j rr r) ∧ Extra t n e (m + 1) (insAt j D d) := by
  have hn : 0 < n := by have := L.n2; omega
  have hle : ∀ i, i < m → d i ≤ posF d i := fun i _ => p_ge_d d i
  obtain ⟨hN1, hN2⟩ := ins_positions d m j D k hblock hgap hle
  generalize hP : posF (insAt j D d) j = P at *
  have hPn : P + 2 ≤ n := by rw [← hP]; exact hfit j (by omega)
  have hDP : D ≤ P := by
    have := p_ge_d (insAt j D d) j
    rw [insAt_eq, hP] at this; exact this
  -- the four kinds of new indices
  have hlow : ∀ i, i < j → posF (insAt j D d) i = posF d i ∧ posF d i < P := by
    intro i hi
    have h1 := pos_ins_lt j D d i hi
    have h2 := p_lt (insAt j D d) i j hi
    rw [hP, h1] at h2
    exact ⟨h1, h2⟩
  have hhigh : ∀ i, j + k ≤ i → i < m → P + k < posF d i := by
    intro i h1 h2
    have := hgap (by omega)
    have := p_mono d (j + k) i h1
    omega
  have hPk : P + k + 1 ≤ n - 1 + 1 := by
    cases k with
    | zero => omega
    | succ k =>
        obtain ⟨h1, h2⟩ := hblock k (by omega)
        have := L.fit (j + k) h1
        omega
  -- slots that are not touched keep being free of old elements
  have hold : ∀ y, (y < P ∨ P + k < y) → (∀ i, i < m + 1 → posF (insAt j D d) i ≠ y) →
      ∀ i, i < m → posF d i ≠ y := by
    intro y hy hno i hi heq
    by_cases h1 : i < j
    · exact hno i (by omega) (by rw [(hlow i h1).1]; exact heq)
    · by_cases h2 : i < j + k
      · obtain ⟨_, h4⟩ := hblock (i - j) (by omega)
        rw [show j + (i - j) = i by omega] at h4
        have := hlow
        omega
      · exact hno (i + 1) (by omega) (by rw [hN2 i (by omega) hi]; exact heq)
  have hsz : t.size = n := by simp only [QF.size, hD.q]; exact L.size
  constructor
  · refine ⟨L.n2, hsz, L.he, hsorted, hfit, ?_, ?_, ?_, ?_, ?_⟩
    · -- continuation bits
      intro i hi
      show _ = contF (insAt j D d) i
      by_cases c1 : i < j
      · obtain ⟨h1, h2⟩ := hlow i c1
        have hy : posF d i < n := by omega
        rw [h1, hD.cont _ hy, if_neg (by omega), if_neg (by omega), L.cont i (by omega),
          contF_ins_lt j D d i c1]
        rfl
      · by_cases c2 : i = j
        · subst c2
          rw [hP, hD.cont _ (by omega), if_pos rfl, hnc]
        · by_cases c3 : i < j + 1 + k
          · -- a moved element
            have h1 := hN1 (i - (j + 1)) (by omega)
            rw [show j + 1 + (i - (j + 1)) = i by omega] at h1
            obtain ⟨h3, h4⟩ := hblock (i - (j + 1)) (by omega)
            rw [h1, hD.cont _ (by omega), if_neg (by omega), if_pos (by omega)]
            by_cases c4 : i = j + 1
            · subst c4
              have := hfl (by omega)
              rw [← this]
              simp only [Nat.sub_self, Nat.add_zero] at h4 ⊢
              by_cases c5 : fl = true
              · rw [if_pos ⟨trivial, c5⟩, if_pos ⟨by omega, c5⟩]
              · rw [if_neg (fun h => c5 h.2), if_neg (fun h => c5 h.2), Nat.add_sub_cancel, ← h4,
                  L.cont j (by omega)]
                rfl
            · rw [if_neg (fun h => c4 (by omega))]
              rw [show P + (i - (j + 1)) + 1 - 1 = P + (i - (j + 1)) by omega, ← h4,
                L.cont _ h3]
              have := contF_ins_gt j D d (i - 1) (by omega)
              rw [show i - 1 + 1 = i by omega] at this
              rw [this, show j + (i - (j + 1)) = i - 1 by omega]
              rfl
          · -- an element behind the block
            have h1 := hN2 (i - 1) (by omega) (by omega)
            rw [show i - 1 + 1 = i by omega] at h1
            have h2 := hhigh (i - 1) (by omega) (by omega)
            have h3 := L.fit (i - 1) (by omega)
            rw [h1, hD.cont _ (by omega), if_neg (by omega), if_neg (by omega), L.cont (i - 1) (by omega)]
            by_cases c4 : i = j + 1
            · -- no element was moved
              have hk0 : k = 0 := by omega
              have := hfl (by omega)
              rw [if_neg (by omega)] at this
              rw [c4, ← this, Nat.add_sub_cancel]
              rfl
            · have := contF_ins_gt j D d (i - 1) (by omega)
              rw [show i - 1 + 1 = i by omega] at this
              rw [this]
              rfl
    · -- shifted bits
      intro i hi
      by_cases c1 : i < j
      · obtain ⟨h1, h2⟩ := hlow i c1
        rw [h1, hD.shift _ (by omega), if_neg (by omega), if_neg (by omega), L.shift i (by omega),
          insAt_lt j D d i c1]
      · by_cases c2 : i = j
        · subst c2
          rw [hP, hD.shift _ (by omega), if_pos rfl, insAt_eq]
        · have hdi : insAt j D d i = d (i - 1) := by
            have := insAt_gt j D d (i - 1) (by omega)
            rw [show i - 1 + 1 = i by omega] at this
            exact this
          by_cases c3 : i < j + 1 + k
          · have h1 := hN1 (i - (j + 1)) (by omega)
            rw [show j + 1 + (i - (j + 1)) = i by omega] at h1
            obtain ⟨h3, h4⟩ := hblock (i - (j + 1)) (by omega)
            rw [show j + (i - (j + 1)) = i - 1 by omega] at h3 h4
            have := hle (i - 1) h3
            rw [h1, hD.shift _ (by omega), if_neg (by omega), if_pos (by omega), hdi]
            symm
            simp only [decide_eq_true_eq]
            omega
          · have h1 := hN2 (i - 1) (by omega) (by omega)
            rw [show i - 1 + 1 = i by omega] at h1
            have h2 := hhigh (i - 1) (by omega) (by omega)
            have h3 := L.fit (i - 1) (by omega)
            rw [h1, hD.shift _ (by omega), if_neg (by omega), if_neg (by omega), L.shift (i - 1) (by omega),
              hdi]
    · -- remainders
      intro i hi
      by_cases c1 : i < j
      · obtain ⟨h1, h2⟩ := hlow i c1
        rw [h1, hD.rem _ (by omega), if_neg (by omega), if_neg (by omega), L.rem i (by omega),
          insAt_lt j rr r i c1]
      · by_cases c2 : i = j
        · subst c2
          rw [hP, hD.rem _ (by omega), if_pos rfl, insAt_eq]
        · have hri : insAt j rr r i = r (i - 1) := by
            have := insAt_gt j rr r (i - 1) (by omega)
            rw [show i - 1 + 1 = i by omega] at this
            exact this
          by_cases c3 : i < j + 1 + k
          · have h1 := hN1 (i - (j + 1)) (by omega)
            rw [show j + 1 + (i - (j + 1)) = i by omega] at h1
            obtain ⟨h3, h4⟩ := hblock (i - (j + 1)) (by omega)
            rw [show j + (i - (j + 1)) = i - 1 by omega] at h3 h4
            rw [h1, hD.rem _ (by omega), if_neg (by omega), if_pos (by omega), hri,
              show P + (i - (j + 1)) + 1 - 1 = P + (i - (j + 1)) by omega, ← h4, L.rem (i - 1) h3]
          · have h1 := hN2 (i - 1) (by omega) (by omega)
            rw [show i - 1 + 1 = i by omega] at h1
            have h2 := hhigh (i - 1) (by omega) (by omega)
            have h3 := L.fit (i - 1) (by omega)
            rw [h1, hD.rem _ (by omega), if_neg (by omega), if_neg (by omega), L.rem (i - 1) (by omega), hri]
    · -- slots without an element
      intro y hy hno
      have hyP : y ≠ P := fun h => hno j (by omega) (by rw [hP, h])
      have hyblk : ¬ (P < y ∧ y ≤ P + k) := by
        intro h
        have h1 := hN1 (y - P - 1) (by omega)
        exact hno (j + 1 + (y - P - 1)) (by have := (hblock (y - P - 1) (by omega)).1; omega)
          (by rw [h1]; omega)
      have := L.nocell y hy (hold y (by omega) hno)
      rw [hD.cont y hy, hD.shift y hy, if_neg hyP, if_neg hyblk, if_neg hyP, if_neg hyblk]
      exact this
    · -- occupied bits
      intro y hy
      rw [hD.occ y hy]
      by_cases c1 : y = D
      · rw [if_pos c1]
        simp only [true_iff]
        exact ⟨j, by omega, by rw [insAt_eq, c1]⟩
      · rw [if_neg c1, L.occ y hy]
        constructor
        · rintro ⟨i, hi, hdi⟩
          by_cases c2 : i < j
          · exact ⟨i, by omega, by rw [insAt_lt j D d i c2]; exact hdi⟩
          · exact ⟨i + 1, by omega, by rw [insAt_gt j D d i (by omega)]; exact hdi⟩
        · rintro ⟨i, hi, hdi⟩
          by_cases c2 : i < j
          · exact ⟨i, by omega, by rw [insAt_lt j D d i c2] at hdi; exact hdi⟩
          · by_cases c3 : i = j
            · rw [c3, insAt_eq] at hdi; exact absurd hdi.symm c1
            · have := insAt_gt j D d (i - 1) (by omega)
              rw [show i - 1 + 1 = i by omega] at this
              exact ⟨i - 1, by omega, by rw [← this]; exact hdi⟩
  · refine ⟨hD.lrem, hD.locc, hD.lcont, hD.lshift, ?_⟩
    intro y hy hno
    have hyP : y ≠ P := fun h => hno j (by omega) (by rw [hP, h])
    have hyblk : ¬ (P < y ∧ y ≤ P + k) := by
      intro h
      have h1 := hN1 (y - P - 1) (by omega)
      exact hno (j + 1 + (y - P - 1)) (by have := (hblock (y - P - 1) (by omega)).1; omega)
        (by rw [h1]; omega)
    rw [hD.rem y hy, if_neg hyP, if_neg hyblk]
    exact X.rem0 y hy (hold y (by omega) hno)

end main
end PyProb.QFLin
