/-
  The double literal `0.6931471805599453` used by the code in place of `ln 2`
  (exact value 6243314768165359 / 2^53 ≈ 0.693147180559945286…) lies below
  `ln 2 = 0.693147180559945309…`.  Mathlib's own bounds on `log 2` have 10 digits, which is not
  enough; here the bound comes from 19 terms of
  `log 2 = log (1 + 1/1) = Σ 2/(2k+1) · (1/3)^(2k+1)` (all terms positive, so every partial sum is
  a lower bound).
-/
import PyProb.Lemmas.RealInst
import Mathlib.Analysis.SpecialFunctions.Log.Deriv
import Mathlib.Analysis.Complex.Exponential

namespace PyProb

theorem code_ln2_le_log_two_num :
    ((6243314768165359 : ℝ) / 9007199254740992) ≤ Real.log 2 := by
  have hs := Real.hasSum_log_one_add_inv (a := 1) one_pos
  have h2 : (1 : ℝ) + 1⁻¹ = 2 := by norm_num
  rw [h2] at hs
  have hle := sum_le_hasSum (Finset.range 19) (fun i _ => by positivity) hs
  refine le_trans ?_ hle
  norm_num [Finset.sum_range_succ]

/-- the code's `ln 2` literal is a lower bound of the true `ln 2` -/
theorem c2_le_log_two : c2 ≤ Real.log 2 := by
  rw [c2_eq]; exact code_ln2_le_log_two_num

/-- the code's `ln² 2` literal `0.4804530139182` is a lower bound of the true `ln² 2`
    (it is even below the square of the `ln 2` literal) -/
theorem c1_le_log_two_sq : c1 ≤ (Real.log 2) ^ 2 := by
  have h1 : c1 ≤ c2 ^ 2 := by rw [c1_eq, c2_eq]; norm_num
  have h2 : c2 ^ 2 ≤ (Real.log 2) ^ 2 := pow_le_pow_left₀ c2_pos.le c2_le_log_two 2
  exact h1.trans h2

/-! crude upper bounds used only by the numeric examples of C07 -/

theorem log_two_le_096 : Real.log 2 ≤ 96 / 100 := by
  rw [Real.log_le_iff_le_exp (by norm_num)]
  have := Real.quadratic_le_exp_of_nonneg (x := 96 / 100) (by norm_num)
  linarith

theorem log_twenty_le_346 : Real.log 20 ≤ 346 / 100 := by
  rw [Real.log_le_iff_le_exp (by norm_num)]
  have := Real.sum_le_exp_of_nonneg (x := 346 / 100) (by norm_num) 5
  refine le_trans ?_ this
  norm_num [Finset.sum_range_succ, Nat.factorial]

end PyProb
