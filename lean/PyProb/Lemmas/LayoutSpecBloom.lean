/-
  Bridges between the model's codecs (`Model/Base.lean`, `Model/Bitarray.lean`) and the
  independently written layout specification (`Spec/Layout.lean`), Bloom family: bit arrays,
  footers of Bloom / counting Bloom / expanding filters, expanding sub-filters.
-/
import PyProb.Lemmas.LayoutSpecCommon
import PyProb.Lemmas.FormatsBloom
import PyProb.Lemmas.Bits

namespace PyProb

/-! ### bits -/

theorem spec_orByteAt (bs : Bytes) (j t : Nat) :
    Spec.orByteAt bs j t = bs.set j (bs.getD j 0 ||| 1 <<< t) := by
  induction bs generalizing j with
  | nil => simp [Spec.orByteAt]
  | cons b bs ih =>
      cases j with
      | zero => simp [Spec.orByteAt, Nat.one_shiftLeft]
      | succ j => simp [Spec.orByteAt, ih]

theorem spec_setBit (bs : Bytes) (i : Nat) : Spec.setBit bs i = setBitB bs i := by
  unfold Spec.setBit setBitB; exact spec_orByteAt _ _ _

theorem byteOfBits_testBit (x : Nat) (h : x < 256) : Spec.byteOfBits (fun t => x.testBit t) = x := by
  revert x
  decide +kernel

theorem byteOfBits_congr (f g : Nat → Bool) (h : ∀ t, t < 8 → f t = g t) :
    Spec.byteOfBits f = Spec.byteOfBits g := by
  simp only [Spec.byteOfBits, h 0 (by decide), h 1 (by decide), h 2 (by decide), h 3 (by decide),
    h 4 (by decide), h 5 (by decide), h 6 (by decide), h 7 (by decide)]

theorem bits_eq_byteOfBits (bits : Bytes) (h : ∀ x ∈ bits, x < 256) :
    bits = (List.range bits.length).map fun j => Spec.byteOfBits fun t => testBitB bits (8 * j + t) := by
  apply List.ext_getElem
  · simp
  · intro j h1 h2
    simp only [List.getElem_map, List.getElem_range]
    have hx := h bits[j] (List.getElem_mem h1)
    rw [byteOfBits_congr _ (fun t => (bits[j]).testBit t), byteOfBits_testBit _ hx]
    intro t ht
    rw [testBitB_eq]
    have e1 : (8 * j + t) / 8 = j := by omega
    have e2 : (8 * j + t) % 8 = t := by omega
    rw [e1, e2, List.getD_eq_getElem?_getD, List.getElem?_eq_getElem h1]
    rfl

theorem bloomFooter_spec (est fpr32 : Nat) (cnt : Int) :
    Gen.bloomFooter.pack [(est : Int), cnt, (fpr32 : Int)] =
      if est < 2 ^ 64 ∧ 0 ≤ cnt ∧ cnt < 2 ^ 64 ∧ fpr32 < 2 ^ 32
      then .ok (Spec.bloomFooter est cnt.toNat fpr32) else .error .structError := by
  rw [bloomFooter_pack]
  by_cases h : est < 2 ^ 64 ∧ 0 ≤ cnt ∧ cnt < 2 ^ 64 ∧ fpr32 < 2 ^ 32
  · obtain ⟨h1, h2, h3, h4⟩ := h
    rw [if_neg (by omega), if_neg (by omega), if_neg (by omega), if_pos ⟨h1, h2, h3, h4⟩]
    rw [leBytesInt8_nat (by omega) (by omega), leBytesInt8_nat h2 (by omega), leBytesInt4_nat (by omega) (by omega)]
    simp [Spec.bloomFooter]
  · rw [if_neg h]
    repeat' split
    all_goals first | rfl | (exfalso; apply h; omega)

theorem bloomFooterHex_spec (est fpr32 : Nat) (cnt : Int) :
    Gen.bloomFooterHex.pack [(est : Int), cnt, (fpr32 : Int)] =
      if est < 2 ^ 64 ∧ 0 ≤ cnt ∧ cnt < 2 ^ 64 ∧ fpr32 < 2 ^ 32
      then .ok ((Spec.u64le est).reverse ++ (Spec.u64le cnt.toNat).reverse ++ (Spec.u32le fpr32).reverse)
      else .error .structError := by
  rw [bloomFooterHex_pack]
  by_cases h : est < 2 ^ 64 ∧ 0 ≤ cnt ∧ cnt < 2 ^ 64 ∧ fpr32 < 2 ^ 32
  · obtain ⟨h1, h2, h3, h4⟩ := h
    rw [if_neg (by omega), if_neg (by omega), if_neg (by omega), if_pos ⟨h1, h2, h3, h4⟩]
    rw [leBytesInt8_nat (by omega) (by omega), leBytesInt8_nat h2 (by omega), leBytesInt4_nat (by omega) (by omega)]
    simp
  · rw [if_neg h]
    repeat' split
    all_goals first | rfl | (exfalso; apply h; omega)

theorem expFooter_spec (n est fpr32 : Nat) (added : Int) :
    Gen.expFooter.pack [(n : Int), (est : Int), added, (fpr32 : Int)] =
      if n < 2 ^ 64 ∧ est < 2 ^ 64 ∧ 0 ≤ added ∧ added < 2 ^ 64 ∧ fpr32 < 2 ^ 32
      then .ok (Spec.u64le n ++ Spec.u64le est ++ Spec.u64le added.toNat ++ Spec.u32le fpr32)
      else .error .structError := by
  rw [expFooter_pack]
  by_cases h : n < 2 ^ 64 ∧ est < 2 ^ 64 ∧ 0 ≤ added ∧ added < 2 ^ 64 ∧ fpr32 < 2 ^ 32
  · obtain ⟨h1, h2, h3, h4, h5⟩ := h
    rw [if_neg (by omega), if_neg (by omega), if_neg (by omega), if_neg (by omega), if_pos ⟨h1, h2, h3, h4, h5⟩]
    rw [leBytesInt8_nat (by omega) (by omega), leBytesInt8_nat (by omega) (by omega),
      leBytesInt8_nat h3 (by omega), leBytesInt4_nat (by omega) (by omega)]
    simp
  · rw [if_neg h]
    repeat' split
    all_goals first | rfl | (exfalso; apply h; omega)

/-! ### expanding sub-filters -/

theorem expanding_go_spec (blooms : List Bloom) (h : ∀ b ∈ blooms, 0 ≤ b.count ∧ b.count < 2 ^ 64) :
    Expanding.exportBytes.go blooms =
      .ok ((blooms.map fun b => (b.count.toNat, b.bits)).flatMap fun s => Spec.u64le s.1 ++ s.2) := by
  induction blooms with
  | nil => rfl
  | cons b bs ih =>
      have hb := h b (by simp)
      have ih := ih (fun x hx => h x (List.mem_cons_of_mem _ hx))
      simp only [Expanding.exportBytes.go, expCount_pack, ih]
      rw [if_neg (by omega)]
      simp only [List.map_cons, List.flatMap_cons, List.append_assoc]
      rw [leBytesInt8_nat hb.1 (by omega)]

theorem expanding_go_error (blooms : List Bloom) (h : ∃ b ∈ blooms, ¬ (0 ≤ b.count ∧ b.count < 2 ^ 64)) :
    Expanding.exportBytes.go blooms = .error .structError := by
  induction blooms with
  | nil => simp at h
  | cons b bs ih =>
      simp only [Expanding.exportBytes.go, expCount_pack]
      by_cases hb : 0 ≤ b.count ∧ b.count < 2 ^ 64
      · have : ∃ x ∈ bs, ¬ (0 ≤ x.count ∧ x.count < 2 ^ 64) := by
          obtain ⟨x, hx, hbad⟩ := h
          rcases List.mem_cons.mp hx with rfl | hx
          · exact absurd hb hbad
          · exact ⟨x, hx, hbad⟩
        rw [ih this, if_neg (by omega)]
      · rw [if_pos (by omega)]

end PyProb
