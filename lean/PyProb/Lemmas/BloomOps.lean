/-
  Lemmas on the plain Bloom filter model (`Model/Bloom.lean`, structure `Bloom`): folds of `setBitB`,
  the membership loop `checkGo`, byte-wise combination `zipBytes`, population counts.
  Used by C01, C12, C13.
-/
import PyProb.Lemmas.Bits
import PyProb.Model.Bloom

namespace PyProb

theorem Bloom.lengthOf_eq (m : Nat) : Bloom.lengthOf m = (m + 7) / 8 := rfl

/-! ### folds of `setBitB` -/

theorem foldl_setBitB_length (ps : List Nat) (bs : Bytes) : (ps.foldl setBitB bs).length = bs.length := by
  induction ps generalizing bs with
  | nil => rfl
  | cons p ps ih => simp [List.foldl_cons, ih, setBitB_length]

/-- after setting the positions `ps` (all inside the array) exactly the old bits and `ps` are set -/
theorem testBitB_foldl_setBitB (ps : List Nat) (bs : Bytes) (j : Nat)
    (h : ∀ p ∈ ps, p / 8 < bs.length) :
    testBitB (ps.foldl setBitB bs) j = (decide (j ∈ ps) || testBitB bs j) := by
  induction ps generalizing bs with
  | nil => simp
  | cons p ps ih =>
      have hp : p / 8 < bs.length := h p (by simp)
      rw [List.foldl_cons, ih, testBitB_setBitB _ _ _ hp]
      · by_cases e : j = p <;> simp [e]
      · intro q hq; rw [setBitB_length]; exact h q (by simp [hq])

/-! ### the membership loop -/

theorem Bloom.checkGo_true_iff (m : Nat) (bits : Bytes) (n : Nat) (hs : List Nat) :
    Bloom.checkGo m bits n hs = .ok true ↔
      n ≤ hs.length ∧ ∀ h ∈ hs.take n, testBitB bits (h % m) = true := by
  induction n generalizing hs with
  | zero => simp [Bloom.checkGo]
  | succ n ih =>
      cases hs with
      | nil => simp [Bloom.checkGo]
      | cons h hs =>
          simp only [Bloom.checkGo, List.take_succ_cons, List.length_cons, List.mem_cons,
            forall_eq_or_imp, Nat.add_le_add_iff_right]
          by_cases hb : testBitB bits (h % m) = true
          · simp [hb, ih]
          · simp [hb]

/-- a long enough hash list never makes the loop raise -/
theorem Bloom.checkGo_ok (m : Nat) (bits : Bytes) (n : Nat) (hs : List Nat) (hl : n ≤ hs.length) :
    Bloom.checkGo m bits n hs = .ok ((hs.take n).all fun h => testBitB bits (h % m)) := by
  induction n generalizing hs with
  | zero => simp [Bloom.checkGo]
  | succ n ih =>
      cases hs with
      | nil => simp at hl
      | cons h hs =>
          simp only [Bloom.checkGo, List.take_succ_cons, List.all_cons]
          by_cases hb : testBitB bits (h % m) = true
          · simp [hb, ih hs (by simpa using hl)]
          · simp [hb]

/-- a hash list that is too short raises IndexError or answers absent, never present -/
theorem Bloom.checkGo_short (m : Nat) (bits : Bytes) (n : Nat) (hs : List Nat) (hl : hs.length < n) :
    Bloom.checkGo m bits n hs = .error .indexError ∨ Bloom.checkGo m bits n hs = .ok false := by
  induction n generalizing hs with
  | zero => simp at hl
  | succ n ih =>
      cases hs with
      | nil => simp [Bloom.checkGo]
      | cons h hs =>
          simp only [Bloom.checkGo]
          by_cases hb : testBitB bits (h % m) = true
          · simpa [hb] using ih hs (by simpa using hl)
          · simp [hb]

/-! ### `add_alt` -/

theorem Bloom.positions_lt (b : Bloom) (hs : List Nat) (hm : 0 < b.m) : ∀ p ∈ b.positions hs, p < b.m := by
  intro p hp
  simp only [Bloom.positions, List.mem_map] at hp
  obtain ⟨h, _, rfl⟩ := hp
  exact Nat.mod_lt _ hm

theorem Bloom.addAlt_bits (b : Bloom) (hs : List Nat) :
    (b.addAlt hs).1.bits = (b.positions hs).foldl setBitB b.bits := by
  unfold Bloom.addAlt; split <;> rfl

theorem Bloom.addAlt_k (b : Bloom) (hs : List Nat) : (b.addAlt hs).1.k = b.k := by
  unfold Bloom.addAlt; split <;> rfl

theorem Bloom.addAlt_m (b : Bloom) (hs : List Nat) : (b.addAlt hs).1.m = b.m := by
  unfold Bloom.addAlt; split <;> rfl

theorem Bloom.addAlt_est (b : Bloom) (hs : List Nat) : (b.addAlt hs).1.est = b.est := by
  unfold Bloom.addAlt; split <;> rfl

theorem Bloom.addAlt_fpr (b : Bloom) (hs : List Nat) : (b.addAlt hs).1.fpr32 = b.fpr32 := by
  unfold Bloom.addAlt; split <;> rfl

theorem Bloom.addAlt_err (b : Bloom) (hs : List Nat) :
    (b.addAlt hs).2 = if hs.length < b.k then some .indexError else none := by
  unfold Bloom.addAlt; split <;> rfl

theorem Bloom.addAlt_count (b : Bloom) (hs : List Nat) :
    (b.addAlt hs).1.count = if hs.length < b.k then b.count else b.count + 1 := by
  unfold Bloom.addAlt; split <;> rfl

/-- bits after `add_alt`, for a filter whose array has `ceil(m/8)` bytes -/
theorem Bloom.testBitB_addAlt (b : Bloom) (hs : List Nat) (j : Nat)
    (hl : b.bits.length = (b.m + 7) / 8) (hm : 0 < b.m) :
    testBitB (b.addAlt hs).1.bits j = (decide (j ∈ b.positions hs) || testBitB b.bits j) := by
  rw [Bloom.addAlt_bits, testBitB_foldl_setBitB]
  intro p hp
  rw [hl]; exact index_in_range (Bloom.positions_lt b hs hm p hp)

/-! ### byte-wise combination -/

theorem zipBytes_length (f : Nat → Nat → Nat) (n : Nat) (x y : Bytes) :
    (Bloom.zipBytes f n x y).length = n := by simp [Bloom.zipBytes]

theorem zipBytes_getD (f : Nat → Nat → Nat) (n : Nat) (x y : Bytes) (i : Nat) (hi : i < n) :
    (Bloom.zipBytes f n x y).getD i 0 = f (x.getD i 0) (y.getD i 0) := by
  simp [Bloom.zipBytes, List.getD_eq_getElem?_getD, hi]

theorem testBitB_zipOr (n : Nat) (x y : Bytes) (j : Nat) (hj : j / 8 < n) :
    testBitB (Bloom.zipBytes (· ||| ·) n x y) j = (testBitB x j || testBitB y j) := by
  simp only [testBitB_eq, zipBytes_getD _ _ _ _ _ hj, Nat.testBit_or]

theorem testBitB_zipAnd (n : Nat) (x y : Bytes) (j : Nat) (hj : j / 8 < n) :
    testBitB (Bloom.zipBytes (· &&& ·) n x y) j = (testBitB x j && testBitB y j) := by
  simp only [testBitB_eq, zipBytes_getD _ _ _ _ _ hj, Nat.testBit_and]

theorem getD_setBitB (x : Bytes) (p i : Nat) (hp : p / 8 < x.length) :
    (setBitB x p).getD i 0 = if i = p / 8 then x.getD i 0 ||| (1 <<< (p % 8)) else x.getD i 0 := by
  unfold setBitB
  by_cases e : i = p / 8
  · subst e; rw [getD_set_same _ _ _ hp]; simp
  · rw [getD_set_ne _ _ _ _ (fun h => e h.symm)]; simp [e]

/-- OR-ing commutes with setting a bit in the left operand: equality of the byte lists -/
theorem zipOr_setBitB_left (n : Nat) (x y : Bytes) (p : Nat) (hx : x.length = n) (hp : p / 8 < n) :
    Bloom.zipBytes (· ||| ·) n (setBitB x p) y = setBitB (Bloom.zipBytes (· ||| ·) n x y) p := by
  apply List.ext_getElem
  · simp [zipBytes_length, setBitB_length]
  · intro i h1 h2
    have hi : i < n := by simpa [zipBytes_length] using h1
    have e1 := zipBytes_getD (· ||| ·) n (setBitB x p) y i hi
    have e2 := getD_setBitB (Bloom.zipBytes (· ||| ·) n x y) p i (by simpa [zipBytes_length] using hp)
    rw [List.getD_eq_getElem?_getD, List.getElem?_eq_getElem h1] at e1
    rw [List.getD_eq_getElem?_getD, List.getElem?_eq_getElem h2] at e2
    simp only [Option.getD_some] at e1 e2
    rw [e1, e2, getD_setBitB x p i (by omega), zipBytes_getD _ _ _ _ _ hi]
    split
    · simp only [Nat.or_assoc, Nat.or_comm (1 <<< (p % 8))]
    · rfl

theorem zipOr_setBitB_right (n : Nat) (x y : Bytes) (p : Nat) (hy : y.length = n) (hp : p / 8 < n) :
    Bloom.zipBytes (· ||| ·) n x (setBitB y p) = setBitB (Bloom.zipBytes (· ||| ·) n x y) p := by
  apply List.ext_getElem
  · simp [zipBytes_length, setBitB_length]
  · intro i h1 h2
    have hi : i < n := by simpa [zipBytes_length] using h1
    have e1 := zipBytes_getD (· ||| ·) n x (setBitB y p) i hi
    have e2 := getD_setBitB (Bloom.zipBytes (· ||| ·) n x y) p i (by simpa [zipBytes_length] using hp)
    rw [List.getD_eq_getElem?_getD, List.getElem?_eq_getElem h1] at e1
    rw [List.getD_eq_getElem?_getD, List.getElem?_eq_getElem h2] at e2
    simp only [Option.getD_some] at e1 e2
    rw [e1, e2, getD_setBitB y p i (by omega), zipBytes_getD _ _ _ _ _ hi]
    split
    · simp only [Nat.or_assoc]
    · rfl

theorem zipOr_foldl_left (n : Nat) (ps : List Nat) (x y : Bytes) (hx : x.length = n)
    (hp : ∀ p ∈ ps, p / 8 < n) :
    Bloom.zipBytes (· ||| ·) n (ps.foldl setBitB x) y = ps.foldl setBitB (Bloom.zipBytes (· ||| ·) n x y) := by
  induction ps generalizing x with
  | nil => rfl
  | cons p ps ih =>
      rw [List.foldl_cons, List.foldl_cons, ih _ (by rw [setBitB_length, hx]) (fun q hq => hp q (by simp [hq])),
        zipOr_setBitB_left n x y p hx (hp p (by simp))]

theorem zipOr_foldl_right (n : Nat) (ps : List Nat) (x y : Bytes) (hy : y.length = n)
    (hp : ∀ p ∈ ps, p / 8 < n) :
    Bloom.zipBytes (· ||| ·) n x (ps.foldl setBitB y) = ps.foldl setBitB (Bloom.zipBytes (· ||| ·) n x y) := by
  induction ps generalizing y with
  | nil => rfl
  | cons p ps ih =>
      rw [List.foldl_cons, List.foldl_cons, ih _ (by rw [setBitB_length, hy]) (fun q hq => hp q (by simp [hq])),
        zipOr_setBitB_right n x y p hy (hp p (by simp))]

theorem zipOr_zero (n : Nat) :
    Bloom.zipBytes (· ||| ·) n (List.replicate n 0) (List.replicate n 0) = List.replicate n 0 := by
  apply List.ext_getElem
  · simp [zipBytes_length]
  · intro i h1 h2
    have hi : i < n := by simpa using h2
    simp [Bloom.zipBytes, List.getD_eq_getElem?_getD, List.getElem?_replicate, hi]

/-! ### well-formedness and its consequences -/

/-- representation invariant of a Bloom filter: `ceil(m/8)` bytes and at least one bit -/
def Bloom.WF (b : Bloom) : Prop := b.bits.length = Bloom.lengthOf b.m ∧ 0 < b.m

theorem Bloom.WF.len {b : Bloom} (h : b.WF) : b.bits.length = (b.m + 7) / 8 := h.1

theorem Bloom.new_wf (est fpr k m : Nat) (hm : 0 < m) : (Bloom.new est fpr k m).WF := by
  simp [Bloom.WF, Bloom.new, hm]

theorem Bloom.addAlt_wf (b : Bloom) (hs : List Nat) (h : b.WF) : (b.addAlt hs).1.WF := by
  unfold Bloom.WF
  rw [Bloom.addAlt_bits, Bloom.addAlt_m, foldl_setBitB_length]; exact h

theorem Bloom.clear_wf (b : Bloom) (h : b.WF) : b.clear.WF := by
  simpa [Bloom.WF, Bloom.clear] using h

theorem Bloom.checkAlt_true_iff (b : Bloom) (hs : List Nat) :
    b.checkAlt hs = .ok true ↔ b.k ≤ hs.length ∧ ∀ p ∈ b.positions hs, testBitB b.bits p = true := by
  unfold Bloom.checkAlt Bloom.positions
  rw [Bloom.checkGo_true_iff]
  simp only [List.mem_map]
  constructor
  · rintro ⟨h1, h2⟩
    refine ⟨h1, ?_⟩
    rintro p ⟨h, hh, rfl⟩
    exact h2 h hh
  · rintro ⟨h1, h2⟩
    exact ⟨h1, fun h hh => h2 _ ⟨h, hh, rfl⟩⟩

/-- adding then checking the same hash list -/
theorem Bloom.checkAlt_addAlt_self (b : Bloom) (hs : List Nat) (hw : b.WF) (hl : b.k ≤ hs.length) :
    (b.addAlt hs).1.checkAlt hs = .ok true := by
  rw [Bloom.checkAlt_true_iff, Bloom.addAlt_k]
  refine ⟨hl, fun p hp => ?_⟩
  have hp' : p ∈ b.positions hs := by
    simpa [Bloom.positions, Bloom.addAlt_k, Bloom.addAlt_m] using hp
  rw [Bloom.testBitB_addAlt b hs p hw.len hw.2]
  simp [hp']

/-- a set bit stays set -/
theorem Bloom.testBitB_addAlt_mono (b : Bloom) (hs : List Nat) (j : Nat) (hw : b.WF)
    (h : testBitB b.bits j = true) : testBitB (b.addAlt hs).1.bits j = true := by
  rw [Bloom.testBitB_addAlt b hs j hw.len hw.2, h]; simp

/-- a present answer stays present under a later `add_alt` of anything -/
theorem Bloom.checkAlt_addAlt_mono (b : Bloom) (hs hs' : List Nat) (hw : b.WF)
    (h : b.checkAlt hs = .ok true) : (b.addAlt hs').1.checkAlt hs = .ok true := by
  rw [Bloom.checkAlt_true_iff] at h ⊢
  rw [Bloom.addAlt_k]
  refine ⟨h.1, fun p hp => ?_⟩
  have hp' : p ∈ b.positions hs := by
    simpa [Bloom.positions, Bloom.addAlt_k, Bloom.addAlt_m] using hp
  exact Bloom.testBitB_addAlt_mono b hs' p hw (h.2 p hp')

theorem Bloom.similar_iff (a b : Bloom) (same : Bool) :
    a.similar b same = true ↔ a.k = b.k ∧ a.m = b.m ∧ same = true := by
  simp [Bloom.similar, and_assoc]

theorem Bloom.union_eq_some (est : Estimator) (a b r : Bloom) (same : Bool)
    (h : Bloom.union est a b same = some r) :
    a.similar b same = true ∧ r.k = a.k ∧ r.m = a.m ∧ r.est = a.est ∧ r.fpr32 = a.fpr32 ∧
      r.bits = Bloom.zipBytes (· ||| ·) a.bloomLength a.bits b.bits := by
  unfold Bloom.union at h
  split at h
  · cases h
  · rename_i hs
    injection h with h; subst h
    simp at hs
    exact ⟨hs, rfl, rfl, rfl, rfl, rfl⟩

theorem Bloom.intersection_eq_some (est : Estimator) (a b r : Bloom) (same : Bool)
    (h : Bloom.intersection est a b same = some r) :
    a.similar b same = true ∧ r.k = a.k ∧ r.m = a.m ∧ r.est = a.est ∧ r.fpr32 = a.fpr32 ∧
      r.bits = Bloom.zipBytes (· &&& ·) a.bloomLength a.bits b.bits := by
  unfold Bloom.intersection at h
  split at h
  · cases h
  · rename_i hs
    injection h with h; subst h
    simp at hs
    exact ⟨hs, rfl, rfl, rfl, rfl, rfl⟩

/-- the result of `union` is well formed whenever the receiver has at least one bit -/
theorem Bloom.union_wf (est : Estimator) (a b r : Bloom) (same : Bool) (hm : 0 < a.m)
    (h : Bloom.union est a b same = some r) : r.WF := by
  obtain ⟨_, _, hm', _, _, hb⟩ := Bloom.union_eq_some est a b r same h
  refine ⟨?_, by omega⟩
  rw [hb, hm', zipBytes_length]; rfl

theorem Bloom.intersection_wf (est : Estimator) (a b r : Bloom) (same : Bool) (hm : 0 < a.m)
    (h : Bloom.intersection est a b same = some r) : r.WF := by
  obtain ⟨_, _, hm', _, _, hb⟩ := Bloom.intersection_eq_some est a b r same h
  refine ⟨?_, by omega⟩
  rw [hb, hm', zipBytes_length]; rfl

/-- bits of a union, at every position of the filter -/
theorem Bloom.testBitB_union (est : Estimator) (a b r : Bloom) (same : Bool)
    (h : Bloom.union est a b same = some r) (j : Nat) (hj : j < 8 * a.bloomLength) :
    testBitB r.bits j = (testBitB a.bits j || testBitB b.bits j) := by
  obtain ⟨_, _, _, _, _, hb⟩ := Bloom.union_eq_some est a b r same h
  rw [hb, testBitB_zipOr _ _ _ _ (by omega)]

theorem Bloom.testBitB_intersection (est : Estimator) (a b r : Bloom) (same : Bool)
    (h : Bloom.intersection est a b same = some r) (j : Nat) (hj : j < 8 * a.bloomLength) :
    testBitB r.bits j = (testBitB a.bits j && testBitB b.bits j) := by
  obtain ⟨_, _, _, _, _, hb⟩ := Bloom.intersection_eq_some est a b r same h
  rw [hb, testBitB_zipAnd _ _ _ _ (by omega)]

theorem Bloom.pos_lt_bits (m p : Nat) (h : p < m) : p < 8 * Bloom.lengthOf m := by
  rw [Bloom.lengthOf_eq]; omega

/-! ### histories of additions -/

/-- a history of `add_alt` calls (a call with too few hashes raises after setting what it has) -/
def Bloom.runAdds (b : Bloom) (xs : List (List Nat)) : Bloom := xs.foldl (fun b hs => (b.addAlt hs).1) b

/-- `hashes[i] % m` for `i < k` -/
def posOf (k m : Nat) (hs : List Nat) : List Nat := (hs.take k).map (· % m)

theorem Bloom.positions_eq (b : Bloom) (hs : List Nat) : b.positions hs = posOf b.k b.m hs := rfl

theorem posOf_lt (k m : Nat) (hs : List Nat) (hm : 0 < m) : ∀ p ∈ posOf k m hs, p < m := by
  intro p hp
  simp only [posOf, List.mem_map] at hp
  obtain ⟨h, _, rfl⟩ := hp
  exact Nat.mod_lt _ hm

theorem Bloom.runAdds_append (b : Bloom) (xs ys : List (List Nat)) :
    b.runAdds (xs ++ ys) = (b.runAdds xs).runAdds ys := by
  simp [Bloom.runAdds, List.foldl_append]

theorem Bloom.runAdds_spec (xs : List (List Nat)) (b : Bloom) :
    (b.runAdds xs).k = b.k ∧ (b.runAdds xs).m = b.m ∧ (b.runAdds xs).est = b.est ∧
    (b.runAdds xs).fpr32 = b.fpr32 ∧
    (b.runAdds xs).bits = (xs.flatMap (posOf b.k b.m)).foldl setBitB b.bits := by
  induction xs generalizing b with
  | nil => exact ⟨rfl, rfl, rfl, rfl, rfl⟩
  | cons hs xs ih =>
      obtain ⟨a, b', c, d, e⟩ := ih (b.addAlt hs).1
      have hrun : b.runAdds (hs :: xs) = (b.addAlt hs).1.runAdds xs := rfl
      rw [hrun]
      refine ⟨by rw [a, Bloom.addAlt_k], by rw [b', Bloom.addAlt_m], by rw [c, Bloom.addAlt_est],
        by rw [d, Bloom.addAlt_fpr], ?_⟩
      rw [e, Bloom.addAlt_bits, Bloom.addAlt_k, Bloom.addAlt_m, List.flatMap_cons, List.foldl_append,
        Bloom.positions_eq]

theorem Bloom.runAdds_wf (xs : List (List Nat)) (b : Bloom) (h : b.WF) : (b.runAdds xs).WF := by
  induction xs generalizing b with
  | nil => exact h
  | cons hs xs ih => exact ih _ (Bloom.addAlt_wf b hs h)

theorem Bloom.union_of_similar (est : Estimator) (a b : Bloom) (same : Bool) (h : a.similar b same = true) :
    ∃ r, Bloom.union est a b same = some r := by
  simp [Bloom.union, h]

theorem Bloom.intersection_of_similar (est : Estimator) (a b : Bloom) (same : Bool)
    (h : a.similar b same = true) : ∃ r, Bloom.intersection est a b same = some r := by
  simp [Bloom.intersection, h]

/-! ### population counts -/

theorem length_filter_le_of_imp {α} (p q : α → Bool) (l : List α) (h : ∀ x, p x = true → q x = true) :
    (l.filter p).length ≤ (l.filter q).length := by
  induction l with
  | nil => simp
  | cons a l ih =>
      simp only [List.filter_cons]
      by_cases hp : p a = true
      · simp [hp, h a hp, ih]
      · by_cases hq : q a = true
        · simp [hp, hq]; omega
        · simp [hp, hq, ih]

theorem popByte_and_le_or (x y : Nat) : popByte (x &&& y) ≤ popByte (x ||| y) := by
  unfold popByte
  apply length_filter_le_of_imp
  intro i
  simp only [Nat.testBit_and, Nat.testBit_or, Bool.and_eq_true, Bool.or_eq_true]
  intro h; exact Or.inl h.1

theorem sum_map_le_sum_map {α} (f g : α → Nat) (l : List α) (h : ∀ x ∈ l, f x ≤ g x) :
    (l.map f).sum ≤ (l.map g).sum := by
  induction l with
  | nil => simp
  | cons a l ih =>
      simp only [List.map_cons, List.sum_cons]
      have := h a (by simp)
      have := ih (fun x hx => h x (by simp [hx]))
      omega

theorem sum_popByte_zip (f : Nat → Nat → Nat) (n : Nat) (x y : Bytes) :
    ((Bloom.zipBytes f n x y).map popByte).sum
      = ((List.range n).map fun i => popByte (f (x.getD i 0) (y.getD i 0))).sum := by
  simp [Bloom.zipBytes, List.map_map, Function.comp_def]

/-- the number of set bit positions among the first `8 * n` of a byte list -/
def countBits (n : Nat) (bs : Bytes) : Nat := ((List.range (8 * n)).filter (testBitB bs)).length

/-- the sum of the byte popcounts is the number of set bit positions -/
theorem sum_popByte_eq_countBits (n : Nat) (bs : Bytes) :
    ((List.range n).map fun i => popByte (bs.getD i 0)).sum = countBits n bs := by
  induction n with
  | zero => simp [countBits]
  | succ n ih =>
      have hr : List.range (8 * (n + 1)) = List.range (8 * n) ++ (List.range 8).map (8 * n + ·) := by
        rw [show 8 * (n + 1) = 8 * n + 8 by omega, List.range_add]
      have hf : ((List.range 8).map (8 * n + ·)).filter (testBitB bs)
          = ((List.range 8).filter fun i => (bs.getD n 0).testBit i).map (8 * n + ·) := by
        rw [List.filter_map]
        congr 1
        apply List.filter_congr
        intro i hi
        have hi : i < 8 := by simpa using hi
        simp only [Function.comp_apply, testBitB_eq]
        rw [show (8 * n + i) / 8 = n by omega, show (8 * n + i) % 8 = i by omega]
      rw [List.range_succ, List.map_append, List.sum_append, ih]
      simp only [countBits, hr, List.filter_append, List.length_append, hf, List.length_map,
        List.map_cons, List.map_nil, List.sum_cons, List.sum_nil, popByte, Nat.add_zero]

/-- the byte popcount sum of a byte-wise combination counts the bit positions where the combined
    bit is set -/
theorem sum_popByte_zip_eq_count (f : Nat → Nat → Nat) (g : Bool → Bool → Bool) (n : Nat) (x y : Bytes)
    (hfg : ∀ u v i, (f u v).testBit i = g (u.testBit i) (v.testBit i)) :
    ((Bloom.zipBytes f n x y).map popByte).sum
      = ((List.range (8 * n)).filter fun p => g (testBitB x p) (testBitB y p)).length := by
  have h1 : ((Bloom.zipBytes f n x y).map popByte).sum
      = ((List.range n).map fun i => popByte ((Bloom.zipBytes f n x y).getD i 0)).sum := by
    rw [sum_popByte_zip]
    congr 1
    apply List.map_congr_left
    intro i hi
    rw [zipBytes_getD _ _ _ _ _ (by simpa using hi)]
  rw [h1, sum_popByte_eq_countBits, countBits]
  congr 1
  apply List.filter_congr
  intro p hp
  have hp : p / 8 < n := by have : p < 8 * n := by simpa using hp
                            omega
  simp only [testBitB_eq, zipBytes_getD _ _ _ _ _ hp, hfg]

theorem take_zipBytes (f : Nat → Nat → Nat) (n : Nat) (x y : Bytes) :
    (Bloom.zipBytes f n x y).take n = Bloom.zipBytes f n x y :=
  List.take_of_length_le (by rw [zipBytes_length]; exact Nat.le_refl n)

end PyProb
